"""C05 -- soft constraints are never fatal, are honoured maximally, and later ones win (E1 + soft-phase trace)."""
from vf.common import Check, assert_repo_import, tier, seed
from vf import gen, e1run, hooks

KINDS = ("spurious_failure", "other_exception", "missed_failure", "under_constrained", "over_constrained", "returned_values_violate",
         "soft_guard", "soft_missing", "soft_not_maximal", "soft_priority", "soft_outcome")


def main():
    assert_repo_import()
    chk = Check("C05", "translation_validation",
                explanation="translation validation of soft-constraint handling: programs mixing hard and soft constraints (conflicting pairwise "
                            "and only in threes, nested under if/else-if/else and implies, in class blocks and inline) are run on the real pyvsc "
                            "with a z3-mirrored Boolector; from the solver trace the soft nodes tried and those finally asserted are extracted "
                            "and z3 decides, for all random-field values: each soft node == `guards => soft` of the reference, the hard formula "
                            "is unaffected by softs (never fatal), no un-enforced soft is consistent with hard + enforced softs (maximality), "
                            "and the enforced set yields the same solution space as the exact greedy-by-priority reference",
                functions=["vsc.model.randomizer.Randomizer.randomize (soft_constraint_l handling)", "vsc.model.rand_info_builder.RandInfoBuilder.visit_constraint_soft/"
                           "visit_constraint_if_else/visit_constraint_implies (_soft_cond_l)", "vsc.model.constraint_soft_model.ConstraintSoftModel.build",
                           "vsc.model.rand_set.RandSet.add_constraint", "vsc.visitors.clear_soft_priority_visitor", "vsc.model.constraint_scope_model.build", "vsc.constraints.soft"])
    chk.assume(*e1run.E1_ASSUMPTIONS)
    chk.assume("soft nodes are taken from the solver trace: assumptions/assertions between the first Sat() of an instance and the start of swizzling",
               "priority order is compared with the exact greedy reference only where the property fixes it (one class block + inline); for "
               "softs spread over several class blocks only guards and maximality are decided")
    t = tier()
    chk.bound("<= 4 soft constraints per block (+ <= 2 inline), 4 fields of 4 bits (values decided for all of them), non-random guard values {0,1,2}; "
              "%d seeded programs" % (40 if t == "quick" else 6000))
    specs = gen.c05_programs(t, seed())
    chk.extra["rule"] = "one evaluation = one randomize call decided (hard equivalence + soft guard/maximality/priority queries); distinct = distinct (program, call)"
    e1run.run_specs(chk, specs, KINDS, opts={"hooks": [hooks.soft_hook]})
    chk.finish()


if __name__ == "__main__":
    main()
