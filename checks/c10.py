"""C10 -- coverpoint bins count exactly the samples whose value they contain.

E3 (symex-lite, int theory) through the public API: the sample values and the iff values are symbolic; bin
specifications (ranges, counts, ignore/illegal sets, auto_bin_max, types) are enumerated.  Oracle: vf/covref.py.
"""
import itertools, random
from vf import symex, e3, covref
from vf.symex import And, Or, Not, Ite
from vf.common import Check, assert_repo_import, tier, seed

ENUMS = {"E5": [["A", 0], ["B", 1], ["C", 5], ["D", 9], ["E", 200]]}


def in_ranges(v, rngs):
    return Or(*[And(v >= lo, v <= hi) if lo != hi else (v == lo) for lo, hi in rngs])


def cp_obligations(sym, cpm, ref, vals_iffs, tag="", base=None):
    """cpm: real CoverpointModel after sampling; vals_iffs: list of (value, iff-cond) per sample;
    base: (hits, ignore hits, illegal hits) of the state the samples arrived in (None: fresh covergroup)"""
    nb = cpm.get_n_bins()
    sym.check(tag + "n_bins", nb == len(ref["bins"]))
    sym.check(tag + "n_ignore_bins", cpm.get_n_ignore_bins() == len(ref["ignore"]))
    sym.check(tag + "n_illegal_bins", cpm.get_n_illegal_bins() == len(ref["illegal"]))
    for i in range(min(nb, len(ref["bins"]))):
        exp = 0
        for v, iff in vals_iffs:
            exp = exp + Ite(And(iff, in_ranges(v, ref["bins"][i][1])), 1, 0)
        if base is not None:
            exp = base[0][i] + exp
        sym.check(tag + "bin_hits[%d]" % i, cpm.get_bin_hits(i) == exp)
    for i in range(min(cpm.get_n_ignore_bins(), len(ref["ignore"]))):
        exp = 0
        for v, iff in vals_iffs:
            exp = exp + Ite(And(iff, in_ranges(v, ref["ignore"][i])), 1, 0)
        if base is not None:
            exp = base[1][i] + exp
        sym.check(tag + "ignore_hits[%d]" % i, cpm.get_ignore_bin_hits(i) == exp)
    for i in range(min(cpm.get_n_illegal_bins(), len(ref["illegal"]))):
        exp = 0
        for v, iff in vals_iffs:
            exp = exp + Ite(And(iff, in_ranges(v, ref["illegal"][i])), 1, 0)
        if base is not None:
            exp = base[2][i] + exp
        sym.check(tag + "illegal_hits[%d]" % i, cpm.get_illegal_bin_hits(i) == exp)


def build(item):
    import vsc
    spec = item["spec"]
    ns = item.get("nsamples", 1)
    cp = spec["cps"][0]
    ref = covref.ref_bins(cp, ENUMS)
    sig = {"harness": "coverpoint", "shape": item.get("shape", "?")}
    enum_classes = covref.mk_enum_classes(ENUMS)

    def h(sym):
        e3.reset_coverage_registry()
        cg, order = covref.build_cg(vsc, spec, enum_classes)
        cps = spec["cps"]
        refs = [covref.ref_bins(c, ENUMS) for c in cps]
        cpms = [cg.get_model().coverpoint_l[i] for i in range(len(cps))]
        tcps = [cg.get_model().type_cg.coverpoint_l[i] for i in range(len(cps))]
        bases = [None] * len(cps)
        tbases = [None] * len(cps)
        if item.get("prestate"):
            # the samples arrive in an arbitrary valid earlier state (symbolic counts, unhit set consistent with at_least)
            from checks.c13 import inject
            for i, c in enumerate(cps):
                al = c.get("at_least") or 1
                inject(sym, cpms[i], "I%d" % i, al, item["prestate"])
                inject(sym, tcps[i], "T%d" % i, al, item["prestate"])
                bases[i] = (list(cpms[i].hit_l), list(cpms[i].hit_ignore_l), list(cpms[i].hit_illegal_l))
                tbases[i] = (list(tcps[i].hit_l), list(tcps[i].hit_ignore_l), list(tcps[i].hit_illegal_l))
        vals_iffs = [[] for _ in cps]
        for s in range(ns):
            args = []
            for i, c in enumerate(cps):
                t = c["type"]
                if t[0] == "enum":
                    ev = item["enum_samples"][s]
                    v = ev
                    args.append(enum_classes[t[1]](ev))
                else:
                    lo, hi = covref.type_range(t)
                    v = sym.int("v%d%s" % (s, "" if i == 0 else "_%d" % i), lo, hi)
                    args.append(v)
                iff = True
                if c.get("iff"):
                    # the condition holds iff the sampled iff value is non-zero (any width)
                    f = sym.int("iff%d%s" % (s, "" if i == 0 else "_%d" % i), 0, (1 << (c.get("iff_width") or 1)) - 1)
                    iff = (f != 0)
                    args.append(f)
                vals_iffs[i].append((v, iff))
            cg.sample(*args)
        for i in range(len(cps)):
            tag = "" if i == 0 else "cp%d:" % i
            cp_obligations(sym, cpms[i], refs[i], vals_iffs[i], tag=tag, base=bases[i])
            # the type-level model of a single instance sees the same hits
            if tbases[i] is not None:
                cp_obligations(sym, tcps[i], refs[i], vals_iffs[i], tag=tag + "type:", base=tbases[i])
            else:
                for k in range(min(tcps[i].get_n_bins(), cpms[i].get_n_bins())):
                    sym.check(tag + "type_bin_hits[%d]" % k, tcps[i].get_bin_hits(k) == cpms[i].get_bin_hits(k))
    return dict(harness=h, theory="int", sig=sig, standins=e3.coverage_standins, max_paths=item.get("max_paths", 4000),
                max_seconds=item.get("max_seconds", 90), desc="coverpoint %s x%d" % (_short(cp), ns))


def _short(cp):
    d = {k: v for k, v in cp.items() if v not in (None, [], {}) and k != "name"}
    return str(d)


def sympos_build(item):
    """bin / bin_array whose range POSITIONS are symbolic (sizes, adjacency pattern and argument order enumerated)"""
    import vsc
    sizes = item["sizes"]          # sizes of the ranges in ascending position order
    gaps = item["gaps"]            # "adj" (touching) or "gap" (at least one value between) for consecutive ranges
    order = item["order"]          # permutation: order in which the ranges are passed to the library
    nb = item["nbins"]
    kind = item["bkind"]
    W = 12
    sig = {"harness": "sympos", "bkind": kind}

    def h(sym):
        e3.reset_coverage_registry()
        ps = []
        prev_hi = None
        for i, sz in enumerate(sizes):
            p = sym.int("p%d" % i, 0, (1 << W) - 1)
            if prev_hi is not None:
                sym.assume((p == prev_hi + 1) if gaps[i - 1] == "adj" else (p > prev_hi + 1))
            hi = p + (sz - 1)
            sym.assume(hi <= (1 << W) - 1)
            ps.append((p, hi))
            prev_hi = hi
        rngs = [[lo, hi] for lo, hi in ps]
        args = [tuple(rngs[j]) if sizes[j] > 1 or kind == "array" else rngs[j][0] for j in order]
        if kind == "bin":
            bins = {"b": vsc.bin(*args)}
            ref = [rngs]
        else:
            bins = {"a": vsc.bin_array([] if nb is None else [nb], *args)}
            ref = covref.partition_ranges(rngs, nb)

        @vsc.covergroup
        class CG(object):
            def __init__(self):
                self.with_sample(dict(a=vsc.bit_t(W)))
                self.cp = vsc.coverpoint(self.a, bins=bins)
        cg = CG()
        cpm = cg.get_model().coverpoint_l[0]
        v = sym.int("v", 0, (1 << W) - 1)
        sym.check("n_bins", cpm.get_n_bins() == len(ref))
        cg.sample(v)
        for i in range(min(cpm.get_n_bins(), len(ref))):
            sym.check("bin_hits[%d]" % i, (cpm.get_bin_hits(i) == 1) == in_ranges_sym(v, ref[i]))
    return dict(harness=h, theory="int", sig=sig, standins=e3.coverage_standins, max_paths=4000, max_seconds=120,
                desc="symbolic positions %s sizes=%s gaps=%s order=%s nbins=%s" % (kind, sizes, gaps, order, nb))


def in_ranges_sym(v, rngs):
    return Or(*[And(v >= lo, v <= hi) for lo, hi in rngs])


def kernel_build(item):
    """RangelistModel.compact / intersect with symbolic endpoints (disjoint inputs as the property quantifies)"""
    from vsc.model.rangelist_model import RangelistModel
    kind = item["kind"]
    n = item["n"]
    sig = {"harness": kind, "n": n}
    B = 1 << 40

    def h(sym):
        rs = []
        for i in range(n):
            lo = sym.int("lo%d" % i, -B, B)
            hi = sym.int("hi%d" % i, -B, B)
            sym.assume(lo <= hi)
            rs.append([lo, hi])
        for i in range(n):
            for j in range(i + 1, n):
                sym.assume(Or(rs[i][1] < rs[j][0], rs[j][1] < rs[i][0]))      # pairwise disjoint
        v = sym.int("v", -B, B)
        rl = RangelistModel([list(r) for r in rs])
        before = Or(*[And(v >= r[0], v <= r[1]) for r in rs])
        if kind == "compact":
            rl.compact()
            after = Or(*[And(v >= r[0], v <= r[1]) for r in rl.range_l]) if rl.range_l else False
            sym.check("compact_preserves_membership", before == after)
            for i in range(len(rl.range_l) - 1):
                sym.check("sorted", rl.range_l[i][1] < rl.range_l[i + 1][0])
        else:
            m = item["m"]
            ts = []
            for i in range(m):
                lo = sym.int("tlo%d" % i, -B, B)
                hi = sym.int("thi%d" % i, -B, B)
                sym.assume(lo <= hi)
                ts.append([lo, hi])
            for i in range(m):
                for j in range(i + 1, m):
                    sym.assume(ts[i][1] < ts[j][0])
            rl.compact()
            other = RangelistModel([list(r) for r in ts])
            rl.intersect(other)
            trimmed = Or(*[And(v >= r[0], v <= r[1]) for r in ts])
            after = Or(*[And(v >= r[0], v <= r[1]) for r in rl.range_l]) if rl.range_l else False
            sym.check("intersect_removes_exactly_trim", after == And(before, Not(trimmed)))
    return dict(harness=h, theory="int", sig=sig, standins=e3.coverage_standins, max_paths=20000, max_seconds=150,
                desc="RangelistModel.%s %d symbolic disjoint ranges%s" % (kind, n, "" if kind == "compact" else " trim %d" % item["m"]))


def shapes(t, sd):
    rnd = random.Random(sd)
    items = []

    def add(cp, shape, ns=1, **kw):
        cp = dict(cp)
        cp.setdefault("name", "cp")
        items.append(dict(spec={"cps": [cp]}, nsamples=ns, shape=shape, **kw))

    U8 = ["u", 8]
    # explicit bins: values, ranges, unordered, adjacent, gaps
    range_sets = [
        [[1, 4]], [3], [0, 255], [[0, 3], [8, 11]], [[8, 11], [0, 3]], [[0, 3], [4, 7]], [5, [10, 12], 200], [[250, 255], 0, [100, 100]],
        [[1, 2], 4, [6, 9], 11], [[0, 0]], [[0, 255]],
    ]
    for rs in range_sets:
        add({"type": U8, "bins": [["b", "bin", rs]]}, "bin")
        for nb in (None, 1, 2, 3, 4, 6):
            add({"type": U8, "bins": [["a", "array", nb, rs]]}, "array")
    # several bins of different kinds in one coverpoint (index offsets behind arrays)
    add({"type": U8, "bins": [["a", "array", None, [[1, 4]]], ["b", "bin", [9, [20, 30]]], ["c", "array", 2, [[40, 47]]], ["d", "bin", [3]]]}, "mixed", ns=2)
    add({"type": U8, "bins": [["x", "bin", [[0, 127]]], ["y", "bin", [[64, 255]]]]}, "overlapping_bins", ns=2)
    # ignore / illegal cutting ranges: left edge, right edge, middle, whole, single value bins
    cuts = [[[1, 1]], [[4, 4]], [[2, 3]], [[1, 4]], [[0, 1]], [[4, 9]], [2], [[0, 255]], [1, 4], [[3, 3], [8, 8]]]
    for cut in cuts:
        add({"type": U8, "bins": [["b", "bin", [[1, 4], 8]]], "ignore": [["ig", cut]]}, "ignore_bin")
        add({"type": U8, "bins": [["a", "array", None, [[1, 4], [8, 9]]]], "ignore": [["ig", cut]]}, "ignore_array")
        add({"type": U8, "bins": [["a", "array", 2, [[1, 4], [8, 9]]]], "illegal": [["il", cut]]}, "illegal_array")
        add({"type": ["u", 4], "ignore": [["ig", [c if isinstance(c, int) else [min(c[0], 15), min(c[1], 15)] for c in cut]]], "auto_bin_max": 4}, "ignore_auto")
    add({"type": U8, "bins": [["a", "array", 3, [[0, 9]]]], "ignore": [["i1", [2]], ["i2", [[5, 6]]]], "illegal": [["l1", [9]]]}, "ignore_illegal_mix", ns=2)
    # samples arriving in an arbitrary earlier state (all bins covered / none / alternating), also with at_least > 1
    for pat in ("all", "none", "alt"):
        for al in (None, 3):
            add({"type": U8, "bins": [["a", "array", None, [[1, 4]]], ["b", "bin", [9, [20, 30]]], ["c", "array", 2, [[40, 47]]]], "at_least": al,
                 "ignore": [["ig", [3]]], "illegal": [["il", [[100, 101]]]]}, "from_state_mixed", ns=2, prestate=pat)
            add({"type": ["u", 3], "auto_bin_max": 4, "at_least": al}, "from_state_auto", ns=2, prestate=pat)
        add({"type": U8, "bins": [["w", "wild", [[0b0100, 0b1100]]], ["lo", "bin", [[0, 3]]]]}, "from_state_wild", ns=2, prestate=pat)
    # one bin specification object shared by two coverpoints, ignore/illegal cuts on one of them only
    shared_bins = [["lo", "bin", [[0, 7]]], ["hi", "bin", [[8, 15]]], ["ar", "array", 2, [[2, 5], [10, 13]]]]
    for cut_kind in ("ignore", "illegal"):
        for first in (0, 1):
            c_cut = {"name": "pa", "type": ["u", 4], "bins": shared_bins, cut_kind: [["x", [3, 12]]]}
            c_plain = {"name": "pb", "type": ["u", 4], "bins": shared_bins}
            if first == 0:
                c_plain = dict(c_plain, share_bins_of="pa")
                cpl = [c_cut, c_plain]
            else:
                c_cut = dict(c_cut, share_bins_of="pb")
                cpl = [c_plain, c_cut]
            items.append(dict(spec={"cps": cpl}, nsamples=1, shape="shared_bin_objects_%s" % cut_kind))
    # iff given by a multi-bit field: any non-zero value enables sampling
    for iw in (2, 4, 8):
        add({"type": U8, "bins": [["a", "array", 2, [[0, 9]]], ["b", "bin", [200]]], "iff": "field", "iff_width": iw}, "iff_multibit", ns=2)
    add({"type": ["u", 3], "iff": "field", "iff_width": 3, "auto_bin_max": 4, "ignore": [["ig", [3]]]}, "iff_multibit", ns=2)
    # ignore / illegal bins listed out of ascending order
    for items_ in ([9, 2], [[12, 13], 5], [7, [1, 3]], [200, 100, 50]):
        add({"type": U8, "bins": [["b", "bin", [[0, 20]]], ["c", "array", 2, [[40, 47]]]], "ignore": [["ig", items_]]}, "unordered_ignore", ns=2)
        add({"type": U8, "bins": [["b", "bin", [[0, 20]]]], "illegal": [["il", items_]]}, "unordered_illegal", ns=2)
        add({"type": U8, "bins": [["a", "array", None, [[0, 9]]]], "ignore": [["i1", items_[:1]], ["i2", items_[1:]]]}, "unordered_ignore", ns=1)
    # auto bins
    for w in (7, 8):
        for abm in (65, 100, 128, 256):
            add({"type": ["u", w], "auto_bin_max": abm}, "auto_above_default", max_paths=20000, max_seconds=200)
    for w in (1, 2, 3, 4, 8):
        for abm in (None, 1, 2, 3, 5, 64):
            add({"type": ["u", w], "auto_bin_max": abm}, "auto")
    for w in (2, 4, 8):
        for abm in (None, 3, 4):
            add({"type": ["s", w], "auto_bin_max": abm}, "auto_signed")
    for abm in (None, 2, 3, 64):
        add({"type": ["u", 64], "auto_bin_max": abm}, "auto64")
        add({"type": ["u", 32], "auto_bin_max": abm}, "auto32")
    add({"type": ["s", 64], "auto_bin_max": 5}, "auto64")
    # signed explicit
    add({"type": ["s", 8], "bins": [["n", "bin", [[-128, -1]]], ["z", "bin", [0]], ["p", "array", 4, [[1, 127]]]]}, "signed_bins", ns=2)
    add({"type": ["s", 8], "bins": [["a", "array", None, [[-3, 3]]]], "ignore": [["ig", [0]]]}, "signed_bins")
    # iff gating
    add({"type": U8, "bins": [["a", "array", 2, [[0, 9]]], ["b", "bin", [200]]], "iff": "field"}, "iff", ns=2)
    add({"type": ["u", 4], "iff": "field", "auto_bin_max": 4, "ignore": [["ig", [3]]]}, "iff", ns=2)
    add({"type": U8, "bins": [["a", "array", 2, [[0, 9]]]], "ignore": [["ig", [3, [20, 21]]]], "illegal": [["il", [9, [30, 31]]]], "iff": "field"}, "iff_ignore_illegal", ns=2)
    add({"type": U8, "bins": [["b", "bin", [[1, 4]]]], "illegal": [["il", [[100, 200]]]], "iff": "field"}, "iff_illegal", ns=2)
    add({"type": U8, "bins": [["b", "bin", [[1, 4]]]], "ignore": [["ig", [[100, 200]], ], ["ig2", [7]]], "iff": "field"}, "iff_ignore", ns=2)
    add({"type": ["s", 4], "ignore": [["ig", [-1]]], "illegal": [["il", [[-8, -7]]]], "iff": "field", "auto_bin_max": 3}, "iff_ignore_illegal_auto", ns=2)
    # enum coverpoints (samples enumerated)
    for ev in (0, 1, 5, 9, 200):
        items.append(dict(spec={"cps": [{"name": "cp", "type": ["enum", "E5"]}]}, nsamples=1, shape="enum", enum_samples=[ev]))
        items.append(dict(spec={"cps": [{"name": "cp", "type": ["enum", "E5"], "ignore": [["ig", [5]]]}]}, nsamples=2, shape="enum_ignore", enum_samples=[ev, 9]))
        items.append(dict(spec={"cps": [{"name": "cp", "type": ["enum", "E5"], "iff": "field"}]}, nsamples=1, shape="enum_iff", enum_samples=[ev]))
    # seeded: random disjoint range sets
    for _ in range(40 if t == "quick" else 4000):
        k = rnd.randint(1, 4)
        pts = sorted(rnd.sample(range(0, 64), 2 * k))
        rs = []
        for i in range(k):
            lo, hi = pts[2 * i], pts[2 * i + 1] - 1
            if hi < lo:
                hi = lo
            if hi - lo > 5:
                hi = lo + rnd.randint(0, 5)
            rs.append([lo, hi] if rnd.random() < 0.7 or lo != hi else lo)
        rnd.shuffle(rs)
        nb = rnd.choice([None, 1, 2, 3, 4, 5, 6])
        cp = {"type": ["u", 6], "bins": [["a", "array", nb, rs]]}
        if rnd.random() < 0.5:
            x = rnd.randrange(64)
            cp[rnd.choice(["ignore", "illegal"])] = [["ex", [[x, min(63, x + rnd.randint(0, 3))]]]]
        add(cp, "seeded_array", ns=rnd.choice([1, 2]))
    return items


def main():
    assert_repo_import()
    chk = Check("C10", "other",
                explanation="bounded symbolic execution (E3 symex-lite, z3 Int) of the real coverage code through the public API "
                            "(@vsc.covergroup / coverpoint / bin / bin_array / ignore_bins / illegal_bins / auto-bins / iff / cg.sample): "
                            "sample values (whole type range) and iff values are symbolic, over sequences of 1..2 samples; every feasible "
                            "path is explored and for each bin z3 shows hit-count == number of gated samples inside the reference value set; "
                            "bin specifications are enumerated (plus RangelistModel.compact/intersect with symbolic endpoints)",
                functions=["vsc.coverage.covergroup.sample/build_model", "vsc.coverage.coverpoint.build_cov_model", "vsc.coverage.bin/bin_array.build_cov_model",
                           "vsc.model.rangelist_model.RangelistModel.compact/intersect/__contains__",
                           "vsc.model.coverpoint_bin_collection_model.CoverpointBinCollectionModel.mk_collection/sample/finalize",
                           "vsc.model.coverpoint_bin_array_model / single_bag / single_range / single_val / enum .sample",
                           "vsc.model.coverpoint_model.CoverpointModel.sample/coverage_ev/finalize", "vsc.model.covergroup_model.CovergroupModel.sample"])
    fails = symex.selftest(nrand=50)
    if fails:
        chk.harness_error("symex operator self-test failed: %s" % fails[:3])
        chk.finish()
    chk.assume(*e3.STANDIN_NOTES)
    chk.assume("bin specifications have pairwise disjoint ranges within one bin/array as the property quantifies; enum samples are enumerated (finite)")
    t = tier()
    chk.bound("coverpoint types u1..u8, s2..s8, u32/u64/s64 (auto-bins), 5-member IntEnum; sample value: whole type range, symbolic; 1..2 samples",
              "explicit bins: <= 4 ranges per bin, bin counts none/1..6; ignore/illegal cuts at left/right/middle/whole; auto_bin_max in {1,2,3,4,5,64}",
              "%d seeded random array specifications over a 6-bit type" % (40 if t == "quick" else 4000),
              "kernels: compact() with 2..%d and intersect() with 2x1, 2x2%s symbolic disjoint ranges, endpoints |x| <= 2^40" % (3 if t == "quick" else 4, "" if t == "quick" else ", 3x2"))
    chk.extra["rule"] = "one evaluation = one coverpoint specification (or kernel configuration) explored over all paths; distinct = distinct specifications"
    e3.run_e3(chk, shapes(t, seed()), build, replay_module="checks.c10")
    sp = []
    for sizes, gaps in (((3,), ()), ((2, 3), ("gap",)), ((2, 3), ("adj",)), ((1, 4, 2), ("gap", "gap")), ((3, 1, 2), ("adj", "gap")), ((2, 2, 2), ("gap", "adj"))):
        perms = list(itertools.permutations(range(len(sizes))))
        for order in (perms if t == "thorough" else perms[:1] + perms[-1:]):
            sp.append(dict(sizes=sizes, gaps=gaps, order=order, nbins=None, bkind="bin"))
            # one-bin-per-value arrays index their hit list by (value - low): with a symbolic low that realises the
            # position value by value, so symbolic positions are used for bag bins and true partitions only
            for nb in (1, 2, 3):
                if nb < sum(sizes):
                    sp.append(dict(sizes=sizes, gaps=gaps, order=order, nbins=nb, bkind="array"))
    e3.run_e3(chk, sp, sympos_build, replay_module="checks.c10:sympos")
    kitems = [dict(kind="compact", n=2), dict(kind="compact", n=3), dict(kind="intersect", n=2, m=1), dict(kind="intersect", n=2, m=2)]
    if t == "thorough":
        kitems += [dict(kind="compact", n=4), dict(kind="intersect", n=3, m=2)]
    e3.run_e3(chk, kitems, kernel_build, replay_module="checks.c10:kernel")
    chk.finish()


if __name__ == "__main__":
    main()
