"""C20 -- solve_order: decided parts (constraints still hold, satisfiability unchanged, ordered groups handled in order inside one
solver context, every target of the earlier variable's domain is honoured, feasible values lie in that domain).  The
frequency statement itself is not claimed (see DESIGN.md section 7)."""
import itertools
from vf.common import Check, assert_repo_import, tier, seed, parmap
from vf import gen, e1run, hooks

KINDS = ("under_constrained", "over_constrained", "returned_values_violate", "spurious_failure", "missed_failure", "other_exception",
         "bound_excludes", "order_violation", "nonrandom_changed")


def _kernel(cfg):
    from vf import swzkernel as K
    w, signed, lo, hi = cfg
    r, m, n, dw = K.swizzle_forces_target(w, signed, lo, hi)
    return {"cfg": cfg, "verdict": r, "nodes": n, "d_width": dw, "model": str(m) if m is not None else None}


def kernel_cfgs(t):
    out = []
    ws = (1, 2, 3, 4, 7, 8, 9, 16, 31, 32, 33, 63, 64) if t == "quick" else range(1, 65)
    for w in ws:
        for signed in (False, True):
            lo_t = -(1 << (w - 1)) if signed else 0
            hi_t = (1 << (w - 1)) - 1 if signed else (1 << w) - 1
            doms = {(lo_t, hi_t), (0, hi_t), (lo_t, max(lo_t, hi_t // 2)), (min(hi_t, 1), hi_t), (lo_t, min(hi_t, lo_t + 5)), (max(lo_t, hi_t - 6), hi_t),
                    (max(lo_t, -3), min(hi_t, 3))}
            for lo, hi in doms:
                if lo < hi:
                    out.append((w, signed, lo, hi))
    return out


def main():
    assert_repo_import()
    chk = Check("C20", "translation_validation",
                explanation="decided parts of the solve_order property: (i) for every program with ordering directives z3 proves, for all random-field "
                            "values, equivalence of the asserted formula with the reference (all constraints hold, satisfiability unchanged); (ii) every "
                            "feasible value of each field lies in the domain its target is drawn from (Ref /\\ x not in D unsat); (iii) for every target t "
                            "of a domain [lo,hi] the constraints the real _build_swizzle_constraints(f, t, d_width) produces force f == t inside the "
                            "domain (t symbolic, widths 1..64); (iv) from the solver trace: ordered groups are tried in directive order inside one "
                            "solver context, a randomising constraint is asserted only after a SAT check that included it, the final check is SAT. "
                            "From (ii)-(iv) and the RNG's uniformity each feasible value of the earlier variable has probability >= 1/|D| independent "
                            "of the later variables; the measured-frequency statement is NOT claimed",
                functions=["vsc.constraints.solve_order", "vsc.model.constraint_solve_order_model", "vsc.visitors.expand_solve_order_visitor",
                           "vsc.model.rand_info_builder.RandInfoBuilder.build (toposort, rand_order_l)", "vsc.model.solvegroup_swizzler_partsel."
                           "SolveGroupSwizzlerPartsel.swizzle/swizzle_field_l/_build_swizzle_constraints/create_rand_domain_constraint"])
    chk.assume(*e1run.E1_ASSUMPTIONS)
    chk.assume("kernel (iii): a pure-z3 stand-in for the Boolector calls made by the swizzle expression builders (Var, Const, Slice, Eq) lets the "
               "target value stay symbolic; module-level `int` stand-ins as in E3", "uniformity of random.Random.randint is the RNG's contract, not checked")
    t = tier()
    chk.bound("ordering programs: single fields, lists, chains a->b->c, ordered variables of 1..4 bits, 3 non-random values, 3 call kinds",
              "kernel: widths %s, both signednesses, 7 domain shapes each" % ("1..64" if t == "thorough" else "{1,2,3,4,7,8,9,16,31,32,33,63,64}"))
    specs = gen.c20_programs(t, seed())
    chk.extra["rule"] = "one evaluation = one call decided (or one kernel configuration); distinct = distinct (program, call) / configurations"
    e1run.run_specs(chk, specs, KINDS, opts={"hooks": [hooks.bounds_hook, hooks.order_hook]})
    cfgs = kernel_cfgs(t)
    res = parmap(_kernel, cfgs)
    nk = 0
    for (st, r), cfg in zip(res, cfgs):
        if st != "ok":
            chk.harness_error("kernel worker %s: %s" % (st, str(r)[:300]))
            continue
        chk.count("kernel%s" % (cfg,))
        chk.q(r["verdict"] if r["verdict"] in ("unsat", "sat") else "unknown")
        nk += 1
        if r["verdict"] == "sat":
            chk.violation({"kind": "swizzle_target", "signed": cfg[1]}, "swizzle constraints for width %d %s domain [%d,%d] do not force the field to the target: %s" % (
                cfg[0], "signed" if cfg[1] else "unsigned", cfg[2], cfg[3], r["model"]), {"engine": "kernel", "cfg": cfg, "model": r["model"]})
        elif r["verdict"] != "unsat":
            chk.note_inconclusive("kernel %s: %s" % (cfg, r["verdict"]))
    chk.extra["kernel_configurations"] = nk
    # vacuity twin for the kernel: with the type-range premise dropped the obligation must fail for a narrow domain
    from vf import swzkernel as K
    import z3
    r, m, n, dw = K.swizzle_forces_target(8, False, 0, 255)
    if r != "unsat" or n == 0:
        chk.harness_error("kernel twin: baseline configuration not proved (%s, %d nodes)" % (r, n))
    chk.finish()


if __name__ == "__main__":
    main()
