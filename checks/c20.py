"""C20 -- solve_order: decided parts (constraints still hold, satisfiability unchanged, ordered groups handled in order inside one
solver context, every target of the earlier variable's domain is honoured, feasible values lie in that domain).  The
frequency statement itself is not claimed (see DESIGN.md section 7)."""
import itertools
from vf.common import Check, assert_repo_import, tier, seed, parmap
from vf import gen, e1run, hooks

KINDS = ("under_constrained", "over_constrained", "returned_values_violate", "spurious_failure", "missed_failure", "other_exception",
         "bound_excludes", "order_violation", "nonrandom_changed", "not_randomised")


def _kernel(cfg):
    from vf import swzkernel as K
    import z3
    if not isinstance(cfg[2], list):
        w, signed, lo, hi = cfg
        ranges, pick = [[lo, hi]], 0
        r, m, n, dw = K.swizzle_forces_target(w, signed, lo, hi)
    else:
        w, signed, ranges, pick = cfg
        r, m, n, dw = K.swizzle_forces_target(w, signed, 0, 0, ranges=ranges, pick=pick)
    out = {"cfg": cfg, "verdict": r, "nodes": n, "d_width": dw, "model": str(m) if m is not None else None}
    if r == "sat":
        # replay on the real code with the real Boolector and the concrete target / field value of the model
        def sval(name, bits):
            for d in m.decls():
                if d.name() == name:
                    v = m[d].as_long()
                    return v - (1 << bits) if v >> (bits - 1) else v
            return 0
        from vf import symex
        t = sval("t", symex.W)
        fv = sval("f", w) if signed else [m[d].as_long() for d in m.decls() if d.name() == "f"][0]
        out["t"], out["f"] = t, fv
        try:
            out["reproduced"] = K.replay_swizzle_concrete(w, signed, ranges, pick, t, fv)
        except Exception as e:
            out["reproduced"] = None
            out["replay_error"] = "%s: %s" % (type(e).__name__, e)
    return out


def kernel_cfgs(t):
    out = []
    ws = (1, 2, 3, 4, 7, 8, 9, 16, 31, 32, 33, 63, 64) if t == "quick" else range(1, 65)
    for w in ws:
        for signed in (False, True):
            lo_t = -(1 << (w - 1)) if signed else 0
            hi_t = (1 << (w - 1)) - 1 if signed else (1 << w) - 1
            doms = {(lo_t, hi_t), (0, hi_t), (lo_t, max(lo_t, hi_t // 2)), (min(hi_t, 1), hi_t), (lo_t, min(hi_t, lo_t + 5)), (max(lo_t, hi_t - 6), hi_t),
                    (max(lo_t, -3), min(hi_t, 3))}
            doms |= {(lo_t, lo_t), (hi_t, hi_t), (max(lo_t, -1), max(lo_t, -1)), (max(lo_t, -7), max(lo_t, -7)), (min(hi_t, 5), min(hi_t, 5))}
            for lo, hi in sorted(doms):
                if lo <= hi:
                    out.append((w, signed, lo, hi))
            # multi-range domains (inside/rangelist, != holes, enum-like value sets): every range may be picked
            if w >= 3:
                q = (hi_t - lo_t) // 8
                multis = [[[lo_t, lo_t + 1], [hi_t - 1, hi_t]], [[lo_t, lo_t + max(1, q)], [lo_t + 3 * q + 1, lo_t + 4 * q], [hi_t - q, hi_t]],
                          [[lo_t + 1, lo_t + 2], [lo_t + 4, lo_t + 5]]]
                if signed:
                    multis.append([[-7, -7], [-1, -1]])
                    multis.append([[lo_t, lo_t], [-2, -2], [3, 3]])
                    multis.append([[-2, -1], [1, 2]])
                    multis.append([[lo_t, -1], [1, hi_t]])
                else:
                    multis.append([[0, 3], [hi_t // 2 + 1, hi_t // 2 + 4]])
                    multis.append([[1, 1], [hi_t // 2 + 1, hi_t // 2 + 1], [hi_t, hi_t]])
                for rs in multis:
                    ok = all(a <= b for a, b in rs) and all(rs[i][1] < rs[i + 1][0] for i in range(len(rs) - 1)) and rs[0][0] >= lo_t and rs[-1][1] <= hi_t
                    if ok:
                        for k in range(len(rs)):
                            out.append((w, signed, rs, k))
    return out


def main():
    assert_repo_import()
    chk = Check("C20", "translation_validation",
                explanation="decided parts of the solve_order property: (i) for every program with ordering directives z3 proves, for all random-field "
                            "values, equivalence of the asserted formula with the reference (all constraints hold, satisfiability unchanged); (ii) every "
                            "feasible value of each field lies in the domain its target is drawn from (Ref /\\ x not in D unsat); (iii) for every target t "
                            "of a domain [lo,hi] the constraints the real _build_swizzle_constraints(f, t, d_width) produces force f == t inside the "
                            "domain (t symbolic, widths 1..64); (iv) from the solver trace: ordered groups are tried in directive order inside one "
                            "solver context, the groups place every 'before' field of a solve_order statement (read from the program text) in an earlier "
                            "group than its 'after' fields whenever both are solver variables of one rand set, a randomising constraint is asserted "
                            "only after a SAT check that included it, the final check is SAT. "
                            "From (ii)-(iv) and the RNG's uniformity each feasible value of the earlier variable has probability >= 1/|D| independent "
                            "of the later variables; the measured-frequency statement is NOT claimed",
                functions=["vsc.constraints.solve_order", "vsc.model.constraint_solve_order_model", "vsc.visitors.expand_solve_order_visitor",
                           "vsc.model.rand_info_builder.RandInfoBuilder.build (toposort, rand_order_l)", "vsc.model.solvegroup_swizzler_partsel."
                           "SolveGroupSwizzlerPartsel.swizzle/swizzle_field_l/_build_swizzle_constraints/create_rand_domain_constraint"])
    chk.assume(*e1run.E1_ASSUMPTIONS)
    chk.assume("kernel (iii): a pure-z3 stand-in for the Boolector calls made by the swizzle expression builders (Var, Const, Slice, Eq) lets the "
               "target value stay symbolic; module-level `int` stand-ins as in E3", "uniformity of random.Random.randint is the RNG's contract, not checked")
    t = tier()
    chk.bound("ordering programs: single fields, lists, chains a->b->c, ordered variables of 1..4 bits, 3 non-random values, 3 call kinds",
              "kernel: widths %s, both signednesses, 7 single-range and up to 5 multi-range domain shapes each (every range picked)" % ("1..64" if t == "thorough" else "{1,2,3,4,7,8,9,16,31,32,33,63,64}"))
    specs = gen.c20_programs(t, seed())
    chk.extra["rule"] = "one evaluation = one call decided (or one kernel configuration); distinct = distinct (program, call) / configurations"
    npairs = [0, 0]

    def xh(spec, r):
        npairs[0] += sum(c.get("order_pairs_checked", 0) for c in r["calls"])
        npairs[1] += sum(c.get("ordered_randsets", 0) for c in r["calls"])
    e1run.run_specs(chk, specs, KINDS, opts={"hooks": [hooks.bounds_hook, hooks.order_hook]}, extra_handler=xh)
    chk.extra["directive_pairs_checked_against_groups"] = npairs[0]
    chk.extra["ordered_randsets_traced"] = npairs[1]
    if npairs[0] == 0 or npairs[1] == 0:
        chk.harness_error("order hook vacuous: %s directive pairs, %s ordered rand sets" % tuple(npairs))
    cfgs = kernel_cfgs(t)
    res = parmap(_kernel, cfgs)
    nk = 0
    for (st, r), cfg in zip(res, cfgs):
        if st != "ok":
            chk.harness_error("kernel worker %s: %s" % (st, str(r)[:300]))
            continue
        chk.count("kernel%s" % (cfg,))
        chk.q(r["verdict"] if r["verdict"] in ("unsat", "sat") else "unknown")
        nk += 1
        if r["verdict"] == "sat":
            if r.get("reproduced") is not True:
                chk.harness_error("kernel counterexample did not replay on the real Boolector: %s" % (r,))
                continue
            dom = [[cfg[2], cfg[3]]] if not isinstance(cfg[2], list) else cfg[2]
            rejects = r.get("t") == r.get("f")
            chk.violation({"kind": "swizzle_target", "signed": cfg[1], "multi_range": len(dom) > 1, "rejects_target": rejects},
                          "swizzle constraints for a %d-bit %s field with domain %s (range %s picked, target %s) %s (replayed with the real Boolector)" % (
                              cfg[0], "signed" if cfg[1] else "unsigned", dom, cfg[3] if len(dom) > 1 else 0, r.get("t"),
                              "reject the target itself, are dropped and leave the field to the solver's default model" if rejects else
                              "do not force the field to the target: f == %s stays possible" % (r.get("f"),)),
                          {"engine": "kernel", "cfg": cfg, "model": r["model"]})
        elif r["verdict"] != "unsat":
            chk.note_inconclusive("kernel %s: %s" % (cfg, r["verdict"]))
    chk.extra["kernel_configurations"] = nk
    # vacuity twin for the kernel: with the type-range premise dropped the obligation must fail for a narrow domain
    from vf import swzkernel as K
    import z3
    r, m, n, dw = K.swizzle_forces_target(8, False, 0, 255)
    if r != "unsat" or n == 0:
        chk.harness_error("kernel twin: baseline configuration not proved (%s, %d nodes)" % (r, n))
    chk.finish()


if __name__ == "__main__":
    main()
