"""C15 -- dist and weighted selection: decided parts (support of dist constraints; selection law of distselect / randselect /
next_target_range with symbolic weights and a symbolic draw; the swizzled dist target is honoured).  Measured frequencies
are not claimed (DESIGN.md section 7)."""
import itertools
from vf import symex, e3
from vf.symex import And, Or, Not, Ite, Implies
from vf.common import Check, assert_repo_import, tier, seed, parmap
from vf import gen, e1run, hooks

KINDS = ("under_constrained", "over_constrained", "returned_values_violate", "spurious_failure", "missed_failure", "other_exception", "nonrandom_changed", "dist_weights")
WMAX = 1 << 40


def build(item):
    import vsc
    import vsc.methods as MT
    import vsc.model.constraint_dist_scope_model as DS
    kind = item["kind"]
    n = item["n"]
    sig = {"harness": kind, "n": n}

    def mk_weights(sym):
        ws = [sym.int("w%d" % i, 0, WMAX) for i in range(n)]
        tot = ws[0]
        for w in ws[1:]:
            tot = tot + w
        sym.assume(tot >= 1)
        return ws, tot

    class StubRandom(object):
        """stand-in for the RNG: returns the next symbolic draw, constrained by randint's contract low <= r <= high"""
        def __init__(self, sym, draws):
            self.sym = sym
            self.draws = list(draws)

        def randint(self, lo, hi):
            r = self.draws.pop(0)
            self.sym.assume(And(r >= lo, r <= hi))
            return r

    if kind in ("distselect", "randselect"):
        def h(sym):
            ws, tot = mk_weights(sym)
            r1 = sym.int("r1", 1, n * WMAX)
            r2 = sym.int("r2", 1, n * WMAX)
            real_random = MT.random
            picks = []
            for r in (r1, r2):
                MT.random = StubRandom(sym, [r])
                try:
                    if kind == "distselect":
                        picks.append(vsc.distselect(list(ws)))
                    else:
                        got = []
                        vsc.randselect([(w, (lambda i=i: got.append(i))) for i, w in enumerate(ws)])
                        sym.check("exactly_one_callback", len(got) == 1)
                        picks.append(got[0] if got else -1)
                finally:
                    MT.random = real_random
            i1, i2 = picks
            sym.check("index_in_range", 0 <= i1 < n)
            if 0 <= i1 < n:
                sym.check("never_zero_weight", ws[i1] > 0)
                if i1 == i2:
                    # all draws that select entry i lie in one window of w_i consecutive values: with every draw in
                    # [1,total] selecting some entry and sum(w) == total this makes P(i) == w_i/total
                    d = Ite(r1 < r2, r2 - r1, r1 - r2)
                    sym.check("window_of_length_w", d <= ws[i1] - 1)
        return dict(harness=h, theory="int", sig=sig, standins=lambda: e3.pyvsc_standins([MT]), max_paths=20000, max_seconds=200,
                    desc="%s with %d symbolic weights <= 2^40, two symbolic draws" % (kind, n))

    if kind == "next_target_range":
        def h(sym):
            ws, tot = mk_weights(sym)
            r1 = sym.int("r1", 1, n * WMAX)
            r2 = sym.int("r2", 1, n * WMAX)
            from vsc.model.constraint_dist_scope_model import ConstraintDistScopeModel
            sc = ConstraintDistScopeModel(None)
            # the builder's preparation (DistConstraintBuilder.visit_constraint_dist): non-zero weights, sorted ascending
            wl = []
            for i, w in enumerate(ws):
                if w > 0:
                    wl.append((w, i))
            wl.sort(key=lambda e: e[0])
            sc.weight_list = wl
            sc.total_weight = tot
            picks = []
            for r in (r1, r2):
                class RS(object):
                    rng = StubRandom(sym, [r])
                picks.append(sc.next_target_range(RS()))
            i1, i2 = picks
            sym.check("index_in_range", 0 <= i1 < n)
            sym.check("never_zero_weight", ws[i1] > 0)
            if i1 == i2:
                d = Ite(r1 < r2, r2 - r1, r1 - r2)
                sym.check("window_of_length_w", d <= ws[i1] - 1)
        return dict(harness=h, theory="int", sig=sig, standins=lambda: e3.pyvsc_standins([DS]), max_paths=20000, max_seconds=200,
                    desc="next_target_range with %d symbolic weights, two symbolic draws" % n)
    raise Exception(kind)


def _dist_kernel(cfg):
    from vf import swzkernel as K
    r, m = K.dist_target_equals(*cfg)
    return {"cfg": cfg, "verdict": r, "model": str(m) if m is not None else None}


def main():
    assert_repo_import()
    chk = Check("C15", "other",
                explanation="decided parts of the dist / weighted-selection property. (a) E1 translation validation: for programs with dist (values, "
                            "ranges, zero weights, overlapping zero-weight entries, weights from non-random fields, accompanying constraints, inline, on "
                            "list elements) z3 proves for all random-field values that the asserted formula is equivalent to: field in the union of "
                            "non-zero-weight entries /\\ other constraints - zero-weight and unlisted values can never be produced; and the (weight, index) "
                            "selection list the real DistConstraintBuilder installs for each call equals the non-zero weights evaluated on the "
                            "current non-random field values (weights may be expressions and change between calls). (b) E3 symbolic "
                            "execution of the real distselect / randselect / ConstraintDistScopeModel.next_target_range with symbolic weights "
                            "(<= 2^40 each) and the RNG draw stubbed by symbolic values within randint's contract: the selected entry never has weight "
                            "0 and any two draws selecting the same entry are less than w_i apart, hence entry i is selected for exactly w_i of the "
                            "`total` equally likely draws. (c) the constraint the swizzler builds for a drawn dist value val is equivalent to f == val "
                            "(val symbolic, widths 1..64). Measured frequencies are NOT claimed",
                functions=["vsc.visitors.dist_constraint_builder.DistConstraintBuilder.visit_constraint_dist", "vsc.model.constraint_dist_scope_model."
                           "ConstraintDistScopeModel.next_target_range", "vsc.model.solvegroup_swizzler_partsel.swizzle_field (dist branch)",
                           "vsc.methods.distselect / randselect", "vsc.constraints.dist / weight", "vsc.model.rand_info_builder.visit_constraint_dist_scope"])
    fails = symex.selftest(nrand=50)
    if fails:
        chk.harness_error("symex operator self-test failed: %s" % fails[:3])
        chk.finish()
    chk.assume(*e1run.E1_ASSUMPTIONS)
    chk.assume("RNG stub: random.randint / RandState.rng.randint return an arbitrary integer within [low, high] (their contract); uniformity of the "
               "real generator is assumed, not checked", *e3.STANDIN_NOTES)
    t = tier()
    nmax = 3 if t == "quick" else 5
    chk.bound("(a) 7 weight lists x 6 accompanying constraint sets x 3 assignments of the weight fields x 2 call kinds; (b) 2..%d symbolic weights "
              "in [0, 2^40], two symbolic draws; (c) widths {1,2,7,8,9,16,32,33,63,64} x signedness" % nmax)
    chk.extra["rule"] = "one evaluation = one call decided / one selection harness explored over all paths / one kernel configuration"
    nl = [0]

    def xh(spec, r):
        nl[0] += sum(c.get("dist_lists_checked", 0) for c in r["calls"])
    e1run.run_specs(chk, gen.c15_programs(t, seed()), KINDS, opts={"hooks": [hooks.dist_hook]}, extra_handler=xh)
    chk.extra["dist_selection_lists_compared"] = nl[0]
    if nl[0] == 0:
        chk.harness_error("no dist selection list was compared (dist hook vacuous)")
    items = [dict(kind=k, n=n) for k in ("distselect", "randselect", "next_target_range") for n in range(2, nmax + 1)]
    items.sort(key=lambda it: -it["n"])
    e3.run_e3(chk, items, build, replay_module="checks.c15", chunk=1)
    cfgs = [(w, s) for w in (1, 2, 7, 8, 9, 16, 32, 33, 63, 64) for s in (False, True)]
    for (st, r), cfg in zip(parmap(_dist_kernel, cfgs), cfgs):
        if st != "ok":
            chk.harness_error("dist kernel worker: %s" % str(r)[:200])
            continue
        chk.count("dist_kernel%s" % (cfg,))
        chk.q(r["verdict"] if r["verdict"] in ("sat", "unsat") else "unknown")
        if r["verdict"] == "sat":
            chk.violation({"kind": "dist_target"}, "dist target constraint for width %d signed=%s is not f == val: %s" % (cfg[0], cfg[1], r["model"]),
                          {"engine": "kernel", "cfg": cfg})
        elif r["verdict"] != "unsat":
            chk.note_inconclusive("dist kernel %s: %s" % (cfg, r["verdict"]))
    chk.finish()


if __name__ == "__main__":
    main()
