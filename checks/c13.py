"""C13 -- coverage reports equal the in-memory coverage (E3; in-memory report model + text structure; XML not claimed)."""
import itertools, random, io, contextlib
from vf import symex, e3, covref
from vf.symex import And, Or, Not, Ite, SInt
from vf.common import Check, assert_repo_import, tier, seed
from checks.c10 import ENUMS

EPS = 1e-6


def inject(sym, cpm, tag, at_least, pattern, hmax=1000):
    """put symbolic hit counts into a coverpoint/cross model, keeping the representation invariant
    (unhit_s = indices whose count is below at_least, cached coverage invalid).
    pattern: 'fork' = every covered/uncovered combination (2^bins paths); 'all'/'none'/'alt' = one fixed combination,
    the counts stay symbolic inside their region"""
    hs = []
    for i in range(len(cpm.hit_l)):
        h = sym.int("%s_h%d" % (tag, i), 0, hmax)
        cpm.hit_l[i] = h
        hs.append(h)
    cpm.unhit_s.clear()
    for i, h in enumerate(hs):
        if pattern == "fork":
            unhit = bool(h < at_least)
        else:
            unhit = (pattern == "none") or (pattern == "alt" and i % 2 == 1)
            sym.assume((h < at_least) if unhit else (h >= at_least))
        if unhit:
            cpm.unhit_s.add(i)
    cpm.coverage_calc_valid = False
    for name in ("hit_ignore_l", "hit_illegal_l"):
        if hasattr(cpm, name):
            l = getattr(cpm, name)
            for i in range(len(l)):
                l[i] = sym.int("%s_%s%d" % (tag, name[4:7], i), 0, 1000)
    return hs


def build(item):
    import vsc
    spec = item["spec"]
    ninst = item["ninst"]
    sig = {"harness": "report", "shape": item.get("shape", "?")}
    enum_classes = covref.mk_enum_classes(ENUMS)

    def opt(cp, key, default):
        v = cp.get(key)
        if v is None:
            v = (spec.get("options") or {}).get(key)
        return default if v is None else v

    def h(sym):
        e3.reset_coverage_registry()
        insts = [covref.build_cg(vsc, spec, enum_classes)[0] for _ in range(ninst)]
        tm = insts[0].get_model().type_cg
        models = [("T", tm)] + [("I%d" % k, cg.get_model()) for k, cg in enumerate(insts)]
        pats = item["patterns"]      # per model: type, inst0, inst1...
        for (tag, m), pat in zip(models, pats):
            m.coverage_calc_valid = False
            for ci, cp in enumerate(spec["cps"]):
                inject(sym, m.coverpoint_l[ci], "%s_%s" % (tag, cp["name"]), opt(cp, "at_least", 1), pat, item.get("hmax", 1000))
            for xi, cr in enumerate(spec.get("crosses", [])):
                inject(sym, m.cross_l[xi], "%s_%s" % (tag, cr["name"]), opt(cr, "at_least", 1), pat if pat != "fork" else "alt", item.get("hmax", 1000))
        # snapshot of the in-memory state (terms, names)
        def snap():
            out = []
            for tag, m in models:
                out.append(([m.name, m.instname] + [c.name for c in m.coverpoint_l] + [c.name for c in m.cross_l],))
                for cpm in m.coverpoint_l:
                    out.append((list(cpm.hit_l), list(cpm.hit_ignore_l), list(cpm.hit_illegal_l), set(cpm.unhit_s)))
                for xm in m.cross_l:
                    out.append((list(xm.hit_l), set(xm.unhit_s)))
            return out
        before = snap()
        with contextlib.redirect_stdout(io.StringIO()):
            rpt = vsc.get_coverage_report_model()
        sym.check("one_type", len(rpt.covergroups) == 1)
        trep = rpt.covergroups[0]
        sym.check("n_instances", len(trep.covergroups) == ninst)

        def cmp_cg(rep, m, tag):
            sym.check(tag + "n_coverpoints", len(rep.coverpoints) == len(m.coverpoint_l))
            sym.check(tag + "n_crosses", len(rep.crosses) == len(m.cross_l))
            for ci, cpm in enumerate(m.coverpoint_l):
                rc = rep.coverpoints[ci]
                sym.check(tag + "cp_name", rc.name == cpm.name)
                sym.check(tag + "n_bins", len(rc.bins) == cpm.get_n_bins())
                sym.check(tag + "n_ignore", len(rc.ignore_bins) == cpm.get_n_ignore_bins())
                sym.check(tag + "n_illegal", len(rc.illegal_bins) == cpm.get_n_illegal_bins())
                for bi in range(min(len(rc.bins), cpm.get_n_bins())):
                    sym.check(tag + "bin_name[%d]" % bi, rc.bins[bi].name == cpm.get_bin_name(bi))
                    sym.check(tag + "bin_count[%d]" % bi, rc.bins[bi].count == cpm.get_bin_hits(bi))
                for bi in range(min(len(rc.ignore_bins), cpm.get_n_ignore_bins())):
                    sym.check(tag + "ignore_name[%d]" % bi, rc.ignore_bins[bi].name == cpm.get_ignore_bin_name(bi))
                    sym.check(tag + "ignore_count[%d]" % bi, rc.ignore_bins[bi].count == cpm.get_ignore_bin_hits(bi))
                for bi in range(min(len(rc.illegal_bins), cpm.get_n_illegal_bins())):
                    sym.check(tag + "illegal_name[%d]" % bi, rc.illegal_bins[bi].name == cpm.get_illegal_bin_name(bi))
                    sym.check(tag + "illegal_count[%d]" % bi, rc.illegal_bins[bi].count == cpm.get_illegal_bin_hits(bi))
                # names and counts against the specification / the injected lists (independent of the model's own accessors)
                ref = covref.ref_bins(spec["cps"][ci], ENUMS)
                if spec["cps"][ci].get("bins"):
                    # user-given names of single bins must appear verbatim at their position (array bins: generated names,
                    # compared with the model's accessor only)
                    exp = [n if "[" not in n else None for n, r in ref["bins"]]
                    got = [b.name for b in rc.bins]
                    sym.check(tag + "bin_names_spec", len(got) == len(exp) and all(e is None or e == g for e, g in zip(exp, got)))
                sym.check(tag + "ignore_names_spec", [b.name for b in rc.ignore_bins] == [n for n, it in spec["cps"][ci].get("ignore") or []])
                sym.check(tag + "illegal_names_spec", [b.name for b in rc.illegal_bins] == [n for n, it in spec["cps"][ci].get("illegal") or []])
                for bi in range(min(len(rc.bins), len(cpm.hit_l))):
                    sym.check(tag + "bin_count_injected[%d]" % bi, rc.bins[bi].count == cpm.hit_l[bi])
                for bi in range(min(len(rc.ignore_bins), len(cpm.hit_ignore_l))):
                    sym.check(tag + "ignore_count_injected[%d]" % bi, rc.ignore_bins[bi].count == cpm.hit_ignore_l[bi])
                for bi in range(min(len(rc.illegal_bins), len(cpm.hit_illegal_l))):
                    sym.check(tag + "illegal_count_injected[%d]" % bi, rc.illegal_bins[bi].count == cpm.hit_illegal_l[bi])
                sym.check(tag + "cp_coverage", abs(rc.coverage - cpm.get_inst_coverage()) < EPS)
            for xi, xm in enumerate(m.cross_l):
                rx = rep.crosses[xi]
                sym.check(tag + "cross_name", rx.name == xm.name)
                sym.check(tag + "cross_n_bins", len(rx.bins) == xm.get_n_bins())
                for bi in range(min(len(rx.bins), xm.get_n_bins())):
                    sym.check(tag + "cross_bin_name[%d]" % bi, rx.bins[bi].name == xm.get_bin_name(bi))
                    sym.check(tag + "cross_bin_count[%d]" % bi, rx.bins[bi].count == xm.get_bin_hits(bi))
                sym.check(tag + "cross_coverage", abs(rx.coverage - xm.get_coverage()) < EPS)
            with contextlib.redirect_stdout(io.StringIO()):
                cgc = m.get_inst_coverage()
            sym.check(tag + "cg_coverage", abs(rep.coverage - cgc) < 1e-3)
        cmp_cg(trep, tm, "type:")
        for k in range(min(ninst, len(trep.covergroups))):
            cmp_cg(trep.covergroups[k], insts[k].get_model(), "inst%d:" % k)
        def names_ok(got):
            # an instance whose in-memory name is unique among its siblings is reported under exactly that name; instances sharing a
            # name are told apart by the report in some way (the scheme is the library's choice): distinct names extending the base
            bases = []
            for cg in insts:
                m = cg.get_model()
                bases.append(m.instname if m.instname is not None else m.name)
            if len(got) != len(bases) or len(set(got)) != len(got):
                return False
            for g, b in zip(got, bases):
                if bases.count(b) == 1 and not any(o != b and o.startswith(b) for o in bases):
                    if g != b:
                        return False
                elif not g.startswith(b):
                    return False
            return True
        sym.check("type_name", trep.name == tm.name)
        sym.check("instance_names", names_ok([i.name for i in trep.covergroups]))
        with contextlib.redirect_stdout(io.StringIO()):
            sym.check("get_coverage_is_type_coverage", abs(insts[0].get_coverage() - trep.coverage) < 1e-3)
        # reporting does not alter coverage state
        after = snap()
        same = len(before) == len(after)
        if same:
            for b, a in zip(before, after):
                for x, y in zip(b, a):
                    if isinstance(x, set):
                        same = same and (x == y)
                    else:
                        same = same and len(x) == len(y) and all((p is q) or (isinstance(p, (str, type(None))) and p == q) for p, q in zip(x, y))
        sym.check("state_unchanged_by_report", same)
        if item.get("rename"):
            # a report taken later in the history shows the names held in memory then
            insts[-1].set_name("renamed_late")
            with contextlib.redirect_stdout(io.StringIO()):
                rpt2 = vsc.get_coverage_report_model()
            t2 = rpt2.covergroups[0]
            sym.check("instance_names_after_rename", names_ok([i.name for i in t2.covergroups]) and t2.covergroups[-1].name == "renamed_late")
            for k in range(min(ninst, len(t2.covergroups))):
                cmp_cg(t2.covergroups[k], insts[k].get_model(), "second_report:inst%d:" % k)
        if item.get("resample"):
            # the percentages were queried above (and may be cached); one more sample arrives on every instance, then the report and
            # the in-memory numbers must agree again
            for k, cg in enumerate(insts):
                args = []
                for cp in spec["cps"]:
                    lo, hi = covref.type_range(cp["type"])
                    args.append(sym.int("rs%d_%s" % (k, cp["name"]), lo, hi))
                cg.sample(*args)
            with contextlib.redirect_stdout(io.StringIO()):
                rpt3 = vsc.get_coverage_report_model()
            t3 = rpt3.covergroups[0]
            cmp_cg(t3, tm, "after_sample:type:")
            for k in range(min(ninst, len(t3.covergroups))):
                cmp_cg(t3.covergroups[k], insts[k].get_model(), "after_sample:inst%d:" % k)
        if item.get("late_variant"):
            # a second parameterised variant of the same covergroup class is instantiated after reports were taken
            ov, _ = covref.build_cg(vsc, item["late_variant"], enum_classes)
            with contextlib.redirect_stdout(io.StringIO()):
                rpt4 = vsc.get_coverage_report_model()
            sym.check("late_variant_two_types", len(rpt4.covergroups) == 2)
            if len(rpt4.covergroups) == 2:
                sizes = sorted(len(t.covergroups) for t in rpt4.covergroups)
                sym.check("late_variant_instances", sizes == sorted([ninst, 1]))
                om = ov.get_model()
                found = [t for t in rpt4.covergroups if len(t.coverpoints) == len(om.coverpoint_l) and
                         [len(c.bins) for c in t.coverpoints] == [c.get_n_bins() for c in om.coverpoint_l] and t is not None]
                sym.check("late_variant_reported_with_its_bins", len(found) >= 1)
        # text rendering: every bin name appears (structure only; counts are symbolic)
        if item.get("text") and not sym.symbolic:
            with contextlib.redirect_stdout(io.StringIO()):
                txt = vsc.get_coverage_report(details=True)
            for cpm in tm.coverpoint_l:
                for bi in range(cpm.get_n_bins()):
                    sym.check("text_has_bin_name", cpm.get_bin_name(bi) in txt)
    return dict(harness=h, theory="int", sig=sig, standins=e3.coverage_standins, max_paths=item.get("max_paths", 6000),
                max_seconds=item.get("max_seconds", 150), desc="report %s inst=%d patterns=%s" % (item.get("shape"), ninst, item["patterns"]))


def text_check(chk):
    """text rendering on concrete histories (formatting makes counts concrete): every bin line shows name and count"""
    import vsc, re
    enum_classes = covref.mk_enum_classes(ENUMS)
    n = 0
    for hist in ([0, 1, 4, 9, 9, 12], [], [5, 5, 5, 13]):
        e3.reset_coverage_registry()
        spec = {"cps": [{"name": "p1", "type": ["u", 4], "bins": [["a", "array", None, [[0, 1]]], ["b", "bin", [[4, 7]]]],
                         "ignore": [["ig", [9]]], "illegal": [["il", [[12, 13]]]]}]}
        with contextlib.redirect_stdout(io.StringIO()):
            cg, _ = covref.build_cg(vsc, spec, enum_classes)
            for v in hist:
                cg.sample(v)
            txt = vsc.get_coverage_report(details=True)
        cpm = cg.get_model().type_cg.coverpoint_l[0]
        for bi in range(cpm.get_n_bins()):
            n += 1
            nm, cnt = cpm.get_bin_name(bi), cpm.get_bin_hits(bi)
            if not re.search(r"%s\s*:\s*%d\b" % (re.escape(nm), cnt), txt):
                chk.violation({"harness": "text_report"}, "text report lacks '%s : %d' (history %s)" % (nm, cnt, hist),
                              {"engine": "concrete", "history": hist})
    chk.count("text_report", n)


def xml_check(chk):
    """supplementary, concrete: names and hit counts of the report built from the XML written by write_coverage_db equal
    those of the in-memory report model (lxml and text formatting make the counts concrete, so this part is not symbolic).
    Percentages after read-back are PyUCIS' (at_least is not carried by its XML) and are not compared."""
    import vsc
    from ucis.xml.xml_factory import XmlFactory
    from ucis.report.coverage_report_builder import CoverageReportBuilder
    enum_classes = covref.mk_enum_classes(ENUMS)
    rnd = random.Random(seed())
    specs = [
        {"cps": [{"name": "p1", "type": ["u", 4], "bins": [["a", "array", None, [[0, 1]]], ["b", "bin", [[4, 7]]]],
                  "ignore": [["ig", [9]], ["ig2", [10]]], "illegal": [["il", [[12, 13]]], ["il2", [14]]], "at_least": 2},
                 {"name": "p2", "type": ["u", 2], "bins": [["z", "bin", [0]], ["nz", "array", None, [[1, 2]]]]}],
         "crosses": [{"name": "x", "cps": ["p1", "p2"], "at_least": 2}]},
        {"cps": [{"name": "p1", "type": ["u", 3]}, {"name": "p2", "type": ["enum", "E5"]}]},
        {"cps": [{"name": "p1", "type": ["u", 4], "bins": [["p", "array", 3, [[0, 10]]]], "weight": 2}]},
    ]

    def dump(r):
        def cg(g):
            o = [g.name]
            for c in g.coverpoints:
                o.append((c.name, [(b.name, b.count) for b in c.bins], [(b.name, b.count) for b in c.ignore_bins], [(b.name, b.count) for b in c.illegal_bins]))
            for c in g.crosses:
                o.append((c.name, [(b.name, b.count) for b in c.bins]))
            o.append([cg(i) for i in g.covergroups])
            return o
        return [cg(g) for g in r.covergroups]
    n = 0
    for si, spec in enumerate(specs):
        for ninst in (1, 2, 3):
            e3.reset_coverage_registry()
            with contextlib.redirect_stdout(io.StringIO()):
                insts = [covref.build_cg(vsc, spec, enum_classes) for _ in range(ninst)]
                hist = []
                for k in range(rnd.randrange(0, 40)):
                    cg, order = insts[rnd.randrange(ninst)]
                    vals = []
                    for fn in order:
                        cp = [c for c in spec["cps"] if c["name"] + "_v" == fn][0]
                        if cp["type"][0] == "enum":
                            vals.append(list(enum_classes[cp["type"][1]])[rnd.randrange(len(enum_classes[cp["type"][1]]))])
                        else:
                            vals.append(rnd.randrange(1 << cp["type"][1]))
                    hist.append([int(v) for v in vals])
                    try:
                        cg.sample(*vals)
                    except Exception:
                        pass            # illegal-bin hits raise by design
                r1 = vsc.get_coverage_report_model()
                out = io.StringIO()
                vsc.write_coverage_db(out)
                r2 = CoverageReportBuilder.build(XmlFactory.read(io.StringIO(out.getvalue())))
            n += 1
            if dump(r1) != dump(r2):
                chk.violation({"harness": "xml_roundtrip"}, "XML written by write_coverage_db reads back with different names/counts "
                              "(spec %d, %d instances, history %s)" % (si, ninst, hist[:20]), {"engine": "concrete", "spec": spec, "history": hist})
    chk.count("xml_roundtrip", n)


def shapes(t, sd):
    items = []
    U = ["u", 4]
    cps = {
        "bins+ignore+illegal": {"name": "p1", "type": U, "bins": [["a", "array", None, [[0, 1]]], ["b", "bin", [[4, 7]]]],
                                "ignore": [["ig", [9]]], "illegal": [["il", [[12, 13]]]]},
        "partition": {"name": "p1", "type": U, "bins": [["p", "array", 2, [[0, 6]]]]},
        "multi_ignore_illegal": {"name": "p1", "type": U, "bins": [["a", "bin", [[0, 3]]], ["b", "array", None, [4, 5]]],
                                 "ignore": [["ig", [9]], ["ig2", [10]]], "illegal": [["il", [[12, 13]]], ["il2", [14]], ["il3", [15]]]},
        "auto": {"name": "p1", "type": ["u", 2]},
        "enum": {"name": "p1", "type": ["enum", "E5"]},
        "array_collection": {"name": "p1", "type": U, "bins": [["c", "array", None, [[0, 1], 5, [8, 9]]]]},
    }
    for sn, cp in cps.items():
        for al in (1, 2):
            for ninst in (1, 2):
                c = dict(cp); c["at_least"] = al
                pl = [["fork"] + ["alt"] * ninst, ["all"] + ["none"] * ninst, ["none", "fork", "all"][:ninst + 1]]
                for pats in pl:
                    items.append(dict(spec={"cps": [c]}, ninst=ninst, shape="%s at_least=%d" % (sn, al), text=(ninst == 1 and pats[0] == "all"),
                                      patterns=pats, rename=(pats[0] == "all")))
    for w1, w2 in ((1, 1), (2, 1), (1, 0), (0, 0)):
        spec = {"cps": [{"name": "p1", "type": ["u", 2], "bins": [["lo", "bin", [[0, 1]]], ["hi", "bin", [[2, 3]]]], "weight": w1},
                        {"name": "p2", "type": ["u", 2], "bins": [["z", "bin", [0]], ["nz", "bin", [[1, 3]]]], "weight": w2}]}
        for pats in (["fork", "alt", "none"], ["alt", "all", "fork"]):
            items.append(dict(spec=spec, ninst=2, shape="2cp weights %d,%d" % (w1, w2), patterns=pats))
    spec = {"cps": [{"name": "p1", "type": ["u", 2], "bins": [["lo", "bin", [[0, 1]]], ["hi", "bin", [[2, 3]]]]},
                    {"name": "p2", "type": ["u", 2], "bins": [["z", "bin", [0]], ["nz", "array", None, [[1, 2]]]]}],
            "crosses": [{"name": "x", "cps": ["p1", "p2"], "at_least": 2}], "options": {"at_least": 1}}
    for pats in (["fork", "alt"], ["alt", "fork"], ["all", "none"]):
        items.append(dict(spec=spec, ninst=1, shape="2cp+cross", max_seconds=300, text=(pats[0] == "all"), patterns=pats))
    items.append(dict(spec=spec, ninst=2, shape="2cp+cross", max_seconds=300, patterns=["alt", "all", "none"]))
    # cached percentages: query, sample again (counts just below at_least can be completed), report again
    for al in (1, 2, 3):
        for pats in (["none", "none"], ["alt", "alt"], ["all", "none"]):
            c = {"name": "p1", "type": ["u", 2], "bins": [["lo", "bin", [[0, 1]]], ["hi", "array", None, [[2, 3]]]], "at_least": al}
            items.append(dict(spec={"cps": [c]}, ninst=1, shape="resample at_least=%d" % al, patterns=pats, resample=True, hmax=al))
    c1 = {"name": "p1", "type": ["u", 2], "bins": [["lo", "bin", [[0, 1]]], ["hi", "bin", [[2, 3]]]], "at_least": 2}
    c2 = {"name": "p2", "type": ["u", 1], "bins": [["b", "array", None, [[0, 1]]]]}
    items.append(dict(spec={"cps": [c1, c2], "crosses": [{"name": "x", "cps": ["p1", "p2"], "at_least": 2}]}, ninst=1, shape="resample 2cp+cross", patterns=["alt", "none"],
                      resample=True, hmax=2, max_seconds=300))
    # a second parameterised variant appears after reports were taken
    va = {"cps": [{"name": "p1", "type": ["u", 3], "bins": [["a", "array", None, [[0, 2]]]]}]}
    vb = {"cps": [{"name": "p1", "type": ["u", 3], "bins": [["a", "array", None, [[0, 3]]]]}]}
    for ninst in (1, 2):
        items.append(dict(spec=va, ninst=ninst, shape="late variant", patterns=["all"] + ["alt"] * ninst, late_variant=vb, rename=(ninst == 2)))
    # seeded random covergroup populations
    rnd = random.Random(sd)

    def rand_cp(name):
        r = rnd.random()
        cp = {"name": name}
        if r < 0.12:
            cp["type"] = ["enum", "E5"]
            if rnd.random() < 0.4:
                cp["ignore"] = [["ig", [rnd.choice([0, 1, 5, 9, 200])]]]
            return cp
        if r < 0.25:
            cp["type"] = [rnd.choice("us"), rnd.randint(1, 3)]
            if rnd.random() < 0.5:
                cp["auto_bin_max"] = rnd.choice([1, 2, 3, 64])
            return cp
        cp["type"] = ["u", 5]
        pts = sorted(rnd.sample(range(0, 32), 8))
        segs = [[pts[2 * i], pts[2 * i + 1] - 1 if pts[2 * i + 1] - 1 >= pts[2 * i] else pts[2 * i]] for i in range(4)]
        bins = []
        for bi in range(rnd.randint(1, 3)):
            seg = segs[bi]
            seg = [seg[0], min(seg[1], seg[0] + 3)]
            k = rnd.random()
            if k < 0.4:
                bins.append(["b%d" % bi, "bin", [seg if seg[0] != seg[1] else seg[0]]])
            elif k < 0.75:
                bins.append(["a%d" % bi, "array", None, [seg]])
            else:
                bins.append(["p%d" % bi, "array", rnd.randint(1, 3), [seg]])
        cp["bins"] = bins
        ex = segs[3]
        if rnd.random() < 0.5:
            cp["ignore"] = [["ig%d" % i, [ex[0] + i]] for i in range(rnd.randint(1, 2)) if ex[0] + i <= ex[1]] or [["ig0", [ex[0]]]]
        if rnd.random() < 0.5:
            cp["illegal"] = [["il%d" % i, [ex[1] - i]] for i in range(rnd.randint(1, 3)) if ex[1] - i > ex[0] + 1] or None
            if cp["illegal"] is None:
                del cp["illegal"]
        if rnd.random() < 0.4:
            cp["at_least"] = rnd.choice([1, 2, 5])
        if rnd.random() < 0.3:
            cp["weight"] = rnd.choice([0, 1, 2, 3])
        return cp
    for i in range(6 if t == "quick" else 2000):
        ncp = rnd.randint(1, 3)
        spec = {"cps": [rand_cp("p%d" % (k + 1)) for k in range(ncp)]}
        if ncp >= 2 and rnd.random() < 0.4:
            spec["crosses"] = [{"name": "x", "cps": ["p1", "p2"], "at_least": rnd.choice([None, 1, 2])}]
        if rnd.random() < 0.3:
            spec["options"] = {"at_least": rnd.choice([1, 2])}
        ninst = rnd.randint(1, 3)
        pats = [rnd.choice(["all", "none", "alt"]) for _ in range(ninst + 1)]
        if not spec.get("crosses") and ncp == 1 and rnd.random() < 0.5:
            pats[rnd.randrange(ninst + 1)] = "fork"
        items.append(dict(spec=spec, ninst=ninst, shape="random#%d" % i, patterns=pats, rename=(rnd.random() < 0.3), max_seconds=200))
    return items


def main():
    assert_repo_import()
    chk = Check("C13", "other",
                explanation="bounded symbolic execution (E3 symex-lite, z3 Int) of the real report path (CoverageSaveVisitor -> PyUCIS in-memory "
                            "database -> CoverageReportBuilder) through vsc.get_coverage_report_model(): the hit count of EVERY regular/ignore/"
                            "illegal/cross bin of the type model and of every instance is a symbolic integer injected into a valid state; z3 "
                            "shows each reported count is identical to the in-memory count, names/structure agree, the percentages agree with "
                            "get_coverage()/get_inst_coverage() on every path, and reporting leaves the state (counts, names) unchanged, also for a second "
                            "report after set_name(). Names given by the user and the injected counts are compared position by position with "
                            "the specification, independently of the model's accessors. The XML write/read round trip cannot be made symbolic "
                            "(lxml, text formatting): names/counts are compared on 9 concrete random histories only (supplementary, not decided).",
                functions=["vsc.get_coverage_report_model / get_coverage_report", "vsc.visitors.coverage_save_visitor.CoverageSaveVisitor",
                           "vsc.model.coverpoint_model.CoverpointModel.get_bin_name/get_bin_hits/get_*_ignore/illegal", "vsc.model.coverpoint_cross_model.get_bin_name/get_bin_hits",
                           "vsc.model.covergroup_model.get_inst_coverage", "ucis.mem (PyUCIS in-memory DB)", "ucis.report.coverage_report_builder.CoverageReportBuilder"])
    fails = symex.selftest(nrand=50)
    if fails:
        chk.harness_error("symex operator self-test failed: %s" % fails[:3])
        chk.finish()
    chk.assume(*e3.STANDIN_NOTES)
    chk.assume("PyUCIS' CoverageReportBuilder does not read the weight of a cross (a limitation outside fvutils/pyvsc): crosses keep weight 1 in the "
               "configurations of this check; coverpoint weights are varied")
    chk.assume("hit counts are injected directly into the models (hit_l / hit_ignore_l / hit_illegal_l) with unhit_s recomputed from at_least: "
               "an arbitrary state satisfying the representation invariant instead of a sampling history",
               "PyUCIS (in-memory DB, report builder) is executed as is on the symbolic counts")
    chk.bound("hit counts 0..1000 symbolic for every bin; 1..2 instances; bin kinds: per-value array, bag bin, partition, auto, enum, "
              "array collection, ignore, illegal, cross; at_least {1,2}; weights {0,1,2}",
              "text report: bin names present (structure only); XML round trip: 9 concrete histories (names, counts)")
    chk.extra["rule"] = "one evaluation = one covergroup population explored over all paths; distinct = distinct populations"
    items = shapes(tier(), seed())
    items.sort(key=lambda it: -(it["ninst"] * (len(it["spec"]["cps"]) + 3 * len(it["spec"].get("crosses", [])))))
    e3.run_e3(chk, items, build, replay_module="checks.c13", chunk=1)
    text_check(chk)
    xml_check(chk)
    chk.finish()


if __name__ == "__main__":
    main()
