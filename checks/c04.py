"""C04 -- list constraints hold on exactly the list the user sees (E1 with size-guarded reference and phantom-element quantification)."""
from vf.common import Check, assert_repo_import, tier, seed
from vf import gen, e1run

KINDS = ("under_constrained", "over_constrained", "returned_values_violate", "spurious_failure", "missed_failure", "other_exception",
         "list_facade", "nonrandom_changed", "out_of_type", "unmapped_var")


def sig(spec, f):
    return {"shape": spec["tag"].split(":")[-1], "listkind": spec["tag"].split(":")[0]}


def main():
    assert_repo_import()
    chk = Check("C04", "translation_validation",
                explanation="translation validation for list constraints: scalar/enum/object lists, fixed and random size, foreach with element, "
                            "index, index arithmetic and nested foreach, sum, product, unique, unique_vec, size and list membership, with "
                            "append/clear/assign histories between calls. For random-size lists the reference guards every element-wise meaning by "
                            "`index < size` over element variables up to the bound; z3 proves, for all sizes the constraints admit and all element "
                            "values, that the asserted formula implies the reference on the visible elements, and - quantifying the invisible "
                            "elements existentially (forall-negated query) - that no visible solution is excluded. After each call and each list "
                            "operation len(), size, indexing and iteration are compared on the real object",
                functions=["vsc.visitors.array_constraint_builder.ArrayConstraintBuilder", "vsc.visitors.foreach_ref_expander.ForeachRefExpander",
                           "vsc.model.constraint_foreach_model", "vsc.model.field_array_model.FieldArrayModel (size, get_sum_expr, get_product_expr, add_field)",
                           "vsc.model.expr_array_sum_model / expr_array_product_model / expr_array_subscript_model", "vsc.model.constraint_unique_model / constraint_unique_vec_model",
                           "vsc.model.expr_in_model (list membership)", "vsc.types.list_t (size, __len__, __getitem__, __iter__, append, extend, clear)", "vsc.model.randomizer"])
    chk.assume(*e1run.E1_ASSUMPTIONS)
    chk.assume("random-size lists: every program bounds size by <= 4; the reference has element variables 0..3; elements at or beyond the final size are "
               "invisible to the user and quantified existentially in the over-constraint query")
    t = tier()
    chk.bound("element types u8/u4/s8/enum/object; size constraints {<=4, ==2, in{0,3}, 1..3}; 13 body shapes; histories of append/clear/assign between 5 calls; "
              "object lists of 3 (+1 appended) with nested fixed lists; unique_vec over three 2-element lists")
    specs = gen.c04_programs(t, seed())
    chk.extra["rule"] = "one evaluation = one call (or list operation) decided; distinct = distinct (program, position)"
    e1run.run_specs(chk, specs, KINDS, opts={"check_lists": True}, sig_fn=sig)
    chk.finish()


if __name__ == "__main__":
    main()
