"""C18 -- field values stay within their declared type on every access path.

E3 (symex-lite): the assigned value, the previous value and the part-select operand are symbolic integers
(|v| <= 2^72, so wider than any field and of either sign); widths, signedness, access paths and part-select bounds
are enumerated.  Oracle: two's-complement / modulo reduction written from the property text.
"""
import sys, enum, itertools, random
from vf import symex
from vf.symex import SInt, And, Or, Not, Ite
from vf.common import Check, assert_repo_import, tier, seed
from vf import e3

B = 2 ** 72
QUICK_W = [1, 2, 3, 7, 8, 9, 16, 31, 32, 33, 63, 64]


def wrap(v, w, signed):
    """reference: reduce modulo 2^w, two's complement for signed (works on SInt in the int theory and on ints)"""
    if signed:
        return ((v + (1 << (w - 1))) % (1 << w)) - (1 << (w - 1))
    return v % (1 << w)


def wrap_bv(v, w, signed):
    """same reference expressed with bit operations (for the bv theory, where % is only available for 2^k)"""
    m = v & ((1 << w) - 1)
    if signed:
        return m - ((m >> (w - 1)) << w)
    return m


class E5(enum.IntEnum):
    a = 0
    b = 1
    c = 5
    d = 9
    e = 200


class EP(enum.Enum):
    x = enum.auto()
    y = enum.auto()
    z = enum.auto()


def _mk_field(vsc, w, signed, rand, init=None):
    if signed:
        cls = vsc.rand_int_t if rand else vsc.int_t
    else:
        cls = vsc.rand_bit_t if rand else vsc.bit_t
    return cls(w) if init is None else cls(w, i=init)


def build(item):
    import vsc
    kind = item["kind"]
    w = item.get("w")
    signed = item.get("signed")
    sig = {"harness": kind, "signed": signed}
    for k in ("write", "read", "rand"):
        if k in item:
            sig[k] = item[k]

    if kind == "scalar":
        write = item["write"]
        rand = item["rand"]

        def h(sym):
            v = sym.int("v", -B, B)
            exp = wrap(v, w, signed)
            if write in ("obj_attr", "obj_init", "obj_pluseq"):
                init = v if write == "obj_init" else None

                @vsc.randobj
                class C(object):
                    def __init__(self):
                        self.a = _mk_field(vsc, w, signed, rand, init)
                        self.other = vsc.uint8_t()
                o = C()
                if write == "obj_attr":
                    o.a = v
                elif write == "obj_pluseq":
                    v0 = sym.int("v0", -B, B)
                    o.a = v0
                    o.a += v
                    exp = wrap(wrap(v0, w, signed) + v, w, signed)
                sym.check("read:attr", o.a == exp)
                with vsc.raw_mode():
                    fo = o.a
                sym.check("read:raw.get_val", fo.get_val() == exp)
                sym.check("read:raw.val", fo.val == exp)
                sym.check("read:model", fo.get_model().get_val().toInt() == exp)
                sym.check("other_untouched", o.other == 0)
            else:
                if write == "init":
                    f = _mk_field(vsc, w, signed, rand, v)
                else:
                    f = _mk_field(vsc, w, signed, rand)
                    if write == "set_val":
                        f.set_val(v)
                    elif write == "val":
                        f.val = v
                sym.check("read:get_val", f.get_val() == exp)
                sym.check("read:val", f.val == exp)
                lo = -(1 << (w - 1)) if signed else 0
                hi = (1 << (w - 1)) - 1 if signed else (1 << w) - 1
                sym.check("in_type", And(f.get_val() >= lo, f.get_val() <= hi))
        return dict(harness=h, theory="int", sig=sig, desc="scalar w=%d %s %s write=%s" % (
            w, "signed" if signed else "unsigned", "rand" if rand else "nonrand", write))

    if kind == "ps_read":
        hi, lo = item["hi"], item["lo"]

        def h(sym):
            v = sym.int("v", -B, B)
            f = _mk_field(vsc, w, signed, False)
            f.set_val(v)
            u = v & ((1 << w) - 1)      # bit pattern of the stored value
            if lo is None:
                sym.check("bit", f[hi] == (u >> hi) & 1)
            else:
                sym.check("slice", f[hi:lo] == (u >> lo) & ((1 << (hi - lo + 1)) - 1))
        return dict(harness=h, theory="bv", sig=sig, desc="partselect-read w=%d %s [%s:%s]" % (
            w, "signed" if signed else "unsigned", hi, lo))

    if kind == "ps_write":
        hi, lo = item["hi"], item["lo"]

        def h(sym):
            v0 = sym.int("v0", -B, B)
            val = sym.int("val", -B, B)
            f = _mk_field(vsc, w, signed, False)
            f.set_val(v0)
            u0 = v0 & ((1 << w) - 1)
            if lo is None:
                sym.assume(And(val >= 0, val <= 1))
                f[hi] = val
                expu = (u0 & ~(1 << hi)) | (val << hi)
            else:
                n = hi - lo + 1
                f[hi:lo] = val
                msk = ((1 << n) - 1) << lo
                expu = (u0 & ~msk) | ((val << lo) & msk)
            exp = wrap_bv(expu, w, signed)
            sym.check("write:get_val", f.get_val() == exp)
            sym.check("write:val", f.val == exp)
        return dict(harness=h, theory="bv", sig=sig, desc="partselect-write w=%d %s [%s:%s]" % (
            w, "signed" if signed else "unsigned", hi, lo))

    if kind == "list":
        write = item["write"]
        n = item.get("n", 2)

        def h(sym):
            vs = [sym.int("v%d" % i, -B, B) for i in range(n)]
            exps = [wrap(v, w, signed) for v in vs]
            elem_t = vsc.int_t(w) if signed else vsc.bit_t(w)

            @vsc.randobj
            class C(object):
                def __init__(self):
                    if write == "init":
                        self.l = vsc.list_t(elem_t, init=vs)
                    elif write == "rand_list":
                        self.l = vsc.rand_list_t(elem_t, sz=n)
                    elif write == "randsz_list":
                        self.l = vsc.randsz_list_t(elem_t)
                    else:
                        self.l = vsc.list_t(elem_t)
            o = C()
            if write in ("append", "randsz_list"):
                for v in vs:
                    o.l.append(v)
            elif write == "extend":
                o.l.extend(vs)
            elif write in ("setitem", "rand_list"):
                if write == "setitem":
                    for _ in vs:
                        o.l.append(0)
                for i, v in enumerate(vs):
                    o.l[i] = v
            elif write == "assign":
                o.l.append(77)
                o.l = vs
            elif write == "clear_append":
                o.l.append(3); o.l.append(4); o.l.append(5)
                o.l.clear()
                for v in vs:
                    o.l.append(v)
            sym.check("len", len(o.l) == n)
            sym.check("size", o.l.size == n)
            it = list(o.l)
            sym.check("iter_len", len(it) == n)
            for i in range(n):
                sym.check("read:index[%d]" % i, o.l[i] == exps[i])
                sym.check("read:iter[%d]" % i, it[i] == exps[i])
            if n > 0:
                sym.check("read:index[-1]", o.l[-1] == exps[-1])
            if item.get("reads"):
                # the other read paths see the same element values: sum, membership, the element models
                tot = 0
                for e_ in exps:
                    tot = tot + e_
                sym.check("read:sum", o.l.sum == tot)
                for i in range(n):
                    sym.check("read:contains[%d]" % i, exps[i] in o.l)
                    mv = o.l.get_model().field_l[i].get_val()
                    mv = mv.v if hasattr(mv, "v") else mv
                    sym.check("read:model[%d]" % i, mv == exps[i])
        return dict(harness=h, theory="bv" if item.get("reads") else "int", sig=sig, desc="list%s w=%d %s write=%s n=%d" % (
            " (sum/in/model reads)" if item.get("reads") else "", w, "signed" if signed else "unsigned", write, n))

    if kind == "readback":
        # FieldScalarModel.post_randomize: Boolector assignment (w-bit binary string) -> attribute value
        def h(sym):
            from vsc.model.field_scalar_model import FieldScalarModel
            import vsc.model.field_scalar_model as FSM
            u = sym.int("u", 0, (1 << w) - 1)

            class Var(object):
                assignment = "<bits>"
            fm = FieldScalarModel("f", w, signed, True)
            fm.var = Var()
            if sym.symbolic:
                real_int = FSM.int

                def int2(x, base=None):
                    if base == 2 and x == "<bits>":
                        return u
                    return real_int(x) if base is None else real_int(x, base)
                FSM.int = int2
                try:
                    fm.post_randomize([])
                finally:
                    FSM.int = real_int
            else:
                Var.assignment = format(u, "0%db" % w)
                fm.post_randomize([])
            exp = wrap(u, w, signed)
            sym.check("readback", fm.get_val().toInt() == exp)
            f = _mk_field(vsc, w, signed, True)
            f._int_field_info.model = fm
            sym.check("readback:get_val", f.get_val() == exp)
        return dict(harness=h, theory="int", sig=sig, desc="solver read-back w=%d %s" % (
            w, "signed" if signed else "unsigned"))

    raise Exception("unknown kind " + kind)


def enum_roundtrip(chk):
    """enum fields hold and return declared enumerators on every path (finite: enumerated, not solver-decided)"""
    import vsc
    n = 0
    for E in (E5, EP):
        for m in E:
            @vsc.randobj
            class C(object):
                def __init__(self):
                    self.e = vsc.enum_t(E)
                    self.re = vsc.rand_enum_t(E)
                    self.l = vsc.list_t(vsc.enum_t(E))
            o = C()
            o.e = m
            o.re = m
            o.l.append(m)
            o.l.append(list(E)[0])
            o.l[1] = m
            with vsc.raw_mode():
                fe = o.e
            got = [o.e, o.re, o.l[0], o.l[1], list(o.l)[0], fe.get_val()]

            # constructor initial values (attribute of an object, free-standing field)
            @vsc.randobj
            class CI(object):
                def __init__(self):
                    self.e = vsc.enum_t(E, i=m)
                    self.re = vsc.rand_enum_t(E, i=m)
            oi = CI()
            got += [oi.e, oi.re, vsc.enum_t(E, i=m).get_val(), vsc.rand_enum_t(E, i=m).get_val()]
            n += 1
            if any(g is not m for g in got):
                chk.violation({"harness": "enum_roundtrip", "enum": E.__name__},
                              "enum round trip: wrote %r read %r" % (m, got),
                              {"engine": "concrete", "enum": E.__name__, "member": m.name})
    chk.count("enum_roundtrip", n)
    chk.extra["enum_roundtrips_enumerated"] = n


def items_for(t, sd):
    rnd = random.Random(sd)
    ws = QUICK_W if t == "quick" else list(range(1, 65))
    items = []
    for w in ws:
        for signed in (False, True):
            for write in ("set_val", "val", "init", "obj_attr", "obj_init", "obj_pluseq"):
                for rand in ((False, True) if write in ("set_val", "obj_attr") else (False,)):
                    items.append(dict(kind="scalar", w=w, signed=signed, write=write, rand=rand))
            items.append(dict(kind="readback", w=w, signed=signed))
            lw = ["append", "setitem", "assign", "init", "extend", "rand_list", "randsz_list", "clear_append"]
            for write in ("append", "setitem", "init"):
                items.append(dict(kind="list", w=w, signed=signed, write=write, n=2, reads=True))
            for write in lw:
                items.append(dict(kind="list", w=w, signed=signed, write=write, n=2))
            if w in (1, 8, 64):
                items.append(dict(kind="list", w=w, signed=signed, write="append", n=0))
                items.append(dict(kind="list", w=w, signed=signed, write="assign", n=1))
            # part selects
            if w <= (8 if t == "quick" else 12):
                pairs = [(hi, lo) for hi in range(w) for lo in range(hi + 1)]
                bits = list(range(w))
            else:
                cand = {(w - 1, 0), (w - 1, w - 1), (0, 0), (w - 1, 1), (w - 2, 0), (w // 2, w // 2 - 1),
                        (w - 1, w // 2), (w // 2, 0), (min(w - 1, 31), 0), (w - 1, min(w - 1, 32))}
                for _ in range(4 if t == "quick" else 12):
                    hi = rnd.randrange(w)
                    cand.add((hi, rnd.randrange(hi + 1)))
                pairs = sorted(p for p in cand if 0 <= p[1] <= p[0] < w)
                bits = sorted({0, 1, w // 2, w - 2, w - 1} & set(range(w)))
            for hi, lo in pairs:
                items.append(dict(kind="ps_read", w=w, signed=signed, hi=hi, lo=lo))
                items.append(dict(kind="ps_write", w=w, signed=signed, hi=hi, lo=lo))
            for b in bits:
                items.append(dict(kind="ps_read", w=w, signed=signed, hi=b, lo=None))
                items.append(dict(kind="ps_write", w=w, signed=signed, hi=b, lo=None))
    return items


def main():
    assert_repo_import()
    chk = Check("C18", "other",
                explanation="bounded symbolic execution (E3 symex-lite, z3) of the real setters/getters/part-select code: "
                            "assigned and previous values are symbolic integers with |v| <= 2^72, every feasible path of "
                            "the real code is explored and each obligation is discharged by z3 (unsat of path & not(post)); "
                            "widths/signedness/access paths/part-select bounds are enumerated",
                functions=["vsc.types.type_base.set_val/get_val/val/__getitem__/__setitem__",
                           "vsc.types.list_t.append/extend/__setitem__/__getitem__/__iter__/clear/size/__len__",
                           "vsc.rand_obj.__getattribute__/__setattr__", "vsc.model.field_scalar_model.FieldScalarModel.set_val/"
                           "get_val/post_randomize", "vsc.model.value_scalar.ValueScalar", "vsc.impl.enum_info.EnumInfo"])
    fails = symex.selftest(nrand=100)
    if fails:
        chk.harness_error("symex operator self-test failed: %s" % fails[:3])
        chk.finish()
    chk.assume(*e3.STANDIN_NOTES)
    chk.assume("solver read-back: the Boolector `assignment` string is stubbed as an arbitrary w-bit pattern whose "
               "int(s, 2) is a symbolic value in [0, 2^w)")
    t = tier()
    chk.bound("values |v| <= 2^72 (symbolic); widths %s; both signednesses" % (
        "1..64" if t == "thorough" else QUICK_W),
        "part-select bounds: all hi>=lo pairs for widths <= %d, boundary+seeded pairs above" % (8 if t == "quick" else 12),
        "lists of 0..2 elements; enum fields: finite, enumerated concretely (5-member IntEnum, 3-member Enum)",
        "bv theory (part-select write): signed BitVec(%d) with syntactic no-overflow bound" % symex.W)
    items = items_for(t, seed())
    chk.extra["rule"] = ("one evaluation = one harness configuration (kind,width,signedness,access path,bounds) explored over "
                         "all feasible paths with all obligations discharged; distinct = distinct configurations")
    e3.run_e3(chk, items, build, replay_module="checks.c18")
    # randomization as a write path (E1): the values a call leaves in fields of small widths / both signednesses / enum types lie in
    # the declared type; enum domains are compared with the declared enumerators for all solver values
    from vf import gen, e1run
    chk.assume(*e1run.E1_ASSUMPTIONS)
    e1run.run_specs(chk, gen.c18_programs(tier(), seed()), ("out_of_type", "under_constrained", "returned_values_violate", "other_exception", "spurious_failure"))
    enum_roundtrip(chk)
    chk.finish()


if __name__ == "__main__":
    main()
