"""C08 (E1, see DESIGN.md section 6)."""
from vf.common import Check, assert_repo_import, tier, seed
from vf import gen, e1run

KINDS = ("nonrandom_changed", "under_constrained", "over_constrained", "returned_values_violate", "spurious_failure", "missed_failure", "other_exception", "out_of_type", "unmapped_var", "model_field_missing")


def canaries(chk):
    """vacuity guard: a deliberately wrong reference must be detected as a disagreement"""
    from vf.gen import F, lit, E, fld, spec_single
    specs = [
        spec_single("canary", "a <= b with R flipped to <", [fld("a", ("u", 8)), fld("b", ("u", 8))], [E(["<=", F("a"), F("b")])]),
        spec_single("canary", "signed compare with R unsigned", [fld("a", ("s", 8)), fld("b", ("s", 8))], [E(["<", F("a"), F("b")])]),
    ]
    from vf.common import parmap
    res = parmap(e1run._work, [(specs[0], {"perturb": "flip_lt_le"}), (specs[1], {"perturb": "unsigned_cmp"})])
    ok = 0
    for st, r in res:
        if st == "ok" and any(f["kind"] in ("under_constrained", "over_constrained") for f in r.get("findings", [])):
            ok += 1
    chk.extra["canaries_detected"] = "%d/%d" % (ok, len(specs))
    if ok != len(specs):
        chk.harness_error("canary: a perturbed reference semantics was not detected (%d/%d)" % (ok, len(specs)))
    # trivially unsatisfiable program must be unsatisfiable on both sides
    un = spec_single("canary", "unsat", [fld("a", ("u", 8))], [E(["<", F("a"), lit(3)]), E([">", F("a"), lit(5)])])
    (st, r), = parmap(e1run._work, [(un, None)])
    if st != "ok" or not r["calls"] or r["calls"][0]["ref_sat"] != "unsat" or r["calls"][0]["exc"] != "SolveFailure":
        chk.harness_error("canary: unsatisfiable program not reported unsatisfiable on both sides: %s" % (r,))


def main():
    assert_repo_import()
    chk = Check("C08", "translation_validation",
                explanation="translation validation of the real constraint lowering: each program of the enumerated families is run on "
                            "the real pyvsc with a z3-mirrored Boolector; z3 decides, for ALL values of the random fields, that the hard "
                            "formula the library asserted implies the reference (SystemVerilog) meaning of every active constraint and "
                            "the enum domains (Q1), and the values actually returned are evaluated in the reference formula (Q5)",
                functions=["vsc.model.randomizer.Randomizer.randomize/do_randomize", "vsc.model.expr_bin_model.ExprBinModel.build/extend",
                           "vsc.model.expr_in_model / expr_partselect_model / expr_unary_model / expr_literal_model .build",
                           "vsc.model.constraint_if_else_model / constraint_implies_model / constraint_scope_model / constraint_unique_model .build",
                           "vsc.model.rand_info_builder.RandInfoBuilder", "vsc.model.rand_set.RandSet", "vsc.model.enum_field_model.EnumFieldModel.build",
                           "vsc.model.field_scalar_model.FieldScalarModel.build/post_randomize", "vsc.model.solvegroup_swizzler_partsel",
                           "vsc.types (operator overloading)", "vsc.constraints", "vsc.impl.ctor", "vsc.visitors.array_constraint_builder"])
    chk.assume(*e1run.E1_ASSUMPTIONS)
    t = tier()
    chk.bound("atomic programs: every binary operator x {u4,s4,u8,s8}^2 x right operand {rand, non-rand (boundary values), int literal, sized literal}; "
              "wide operands (16..64 bit) for comparison/add/sub/bitwise/shift; * / % only at widths <= 8",
              "statements: in/not_inside (values, ranges, unordered/overlapping/adjacent, field bounds, rangelist attribute), part/bit select, unique, "
              "if/else-if/else chains, implies, nesting, Boolean composition depth <= 3, enum fields, sub-objects (rand/non-rand), fixed lists + foreach, "
              "rand-set merging statements, call kinds randomize / randomize_with / vsc.randomize",
              "seeded random programs: %d (depth <= 2 expressions, <= 4 statements, <= 5 fields)" % (1500 if t == "thorough" else 150))
    canaries(chk)
    specs = gen.c08_programs(t, seed())
    chk.extra["rule"] = "one evaluation = one randomize call decided by Q1/Q2/Q3/Q5; distinct = distinct (program, call position)"
    e1run.run_specs(chk, specs, KINDS, sig_fn=lambda spec, f: {"cond_class": spec["cond_class"]} if "cond_class" in spec else {})
    chk.finish()


if __name__ == "__main__":
    main()
