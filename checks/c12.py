"""C12 -- instance and type coverage aggregate consistently and stay within 0..100 (E3)."""
import itertools, random
from vf import symex, e3, covref
from vf.symex import And, Or, Not, Ite, SInt, SBool
from vf.common import Check, assert_repo_import, tier, seed
from checks.c10 import in_ranges, ENUMS

EPS = 1e-6


def concrete_count(sym, x):
    """force a (possibly symbolic) hit count comparison result into a Python bool by forking"""
    return bool(x)


def cp_cov(sym, hits, at_least):
    """reference share of bins that reached at_least (forks on each comparison) -> float percentage"""
    n = len(hits)
    if n == 0:
        return 0.0
    c = 0
    for h in hits:
        if bool(h >= at_least):
            c += 1
    return 100.0 * c / n


def weighted(items):
    """items: [(coverage, weight)] -> weighted average as in the property text"""
    tot = sum(w for _, w in items)
    if tot == 0:
        return None
    return sum(c * w for c, w in items) / tot


def build(item):
    import vsc
    spec = item["spec"]
    other = item.get("other_spec")
    ninst = item["ninst"]
    ns = item["nsamples"]
    order_kind = item.get("create_order", "same_first")
    refs = [covref.ref_bins(cp, ENUMS) for cp in spec["cps"]]
    sig = {"harness": "aggregate", "shape": item.get("shape", "?"), "at_least": item.get("at_least_tag", 1), "weights": item.get("weights_tag", "1")}
    enum_classes = covref.mk_enum_classes(ENUMS)
    cpidx = {cp["name"]: i for i, cp in enumerate(spec["cps"])}

    def opt(cp, key, default):
        v = cp.get(key)
        if v is None:
            v = (spec.get("options") or {}).get(key)
        return default if v is None else v

    def h(sym):
        e3.reset_coverage_registry()
        insts = []
        oth = None
        if other is not None and order_kind == "other_first":
            oth, _ = covref.build_cg(vsc, other, enum_classes)
        for k in range(ninst):
            cg, order = covref.build_cg(vsc, spec, enum_classes)
            insts.append(cg)
            if other is not None and order_kind == "interleaved" and k == 0:
                oth, _ = covref.build_cg(vsc, other, enum_classes)
        if other is not None and oth is None:
            oth, _ = covref.build_cg(vsc, other, enum_classes)
        tm = insts[0].get_model().type_cg
        for cg in insts:
            sym.check("same_type_model", cg.get_model().type_cg is tm)
        if oth is not None:
            sym.check("different_shape_separate_type", oth.get_model().type_cg is not tm)
        prev_inst_cov = [0.0] * ninst
        prev_type_cov = 0.0
        log = []   # (instance index, {cp: value})
        for s in range(ns):
            sel = sym.int("sel%d" % s, 0, ninst - 1)
            vals = {}
            args = []
            for cp in spec["cps"]:
                lo, hi = covref.type_range(cp["type"])
                v = sym.int("%s_%d" % (cp["name"], s), lo, hi)
                vals[cp["name"]] = v
                args.append(v)
            k = int(sel)          # fork by value: which instance samples
            insts[k].sample(*args)
            log.append((k, vals))
            # ---- expected hit counts
            for k2 in range(ninst):
                m = insts[k2].get_model()
                for ci, cp in enumerate(spec["cps"]):
                    cpm = m.coverpoint_l[ci]
                    for bi in range(len(refs[ci]["bins"])):
                        exp = 0
                        for (kk, vv) in log:
                            if kk == k2:
                                exp = exp + Ite(in_ranges(vv[cp["name"]], refs[ci]["bins"][bi][1]), 1, 0)
                        sym.check("inst%d_%s_hits[%d]" % (k2, cp["name"], bi), cpm.get_bin_hits(bi) == exp)
            for ci, cp in enumerate(spec["cps"]):
                tcp = tm.coverpoint_l[ci]
                for bi in range(len(refs[ci]["bins"])):
                    tot = 0
                    for k2 in range(ninst):
                        tot = tot + insts[k2].get_model().coverpoint_l[ci].get_bin_hits(bi)
                    sym.check("type_%s_hits_is_sum[%d]" % (cp["name"], bi), tcp.get_bin_hits(bi) == tot)
            for ci2, cr in enumerate(spec.get("crosses", [])):
                tx = tm.cross_l[ci2]
                for bi in range(tx.get_n_bins()):
                    tot = 0
                    for k2 in range(ninst):
                        tot = tot + insts[k2].get_model().cross_l[ci2].get_bin_hits(bi)
                    sym.check("type_cross_hits_is_sum[%d]" % bi, tx.get_bin_hits(bi) == tot)
            if oth is not None:
                om = oth.get_model()
                for cpm in list(om.coverpoint_l) + list(om.type_cg.coverpoint_l):
                    for bi in range(cpm.get_n_bins()):
                        sym.check("other_type_untouched", cpm.get_bin_hits(bi) == 0)
            # ---- coverage percentages
            for k2 in range(ninst):
                m = insts[k2].get_model()
                parts = []
                for ci, cp in enumerate(spec["cps"]):
                    cpm = m.coverpoint_l[ci]
                    hits = [cpm.get_bin_hits(bi) for bi in range(cpm.get_n_bins())]
                    exp = cp_cov(sym, hits, opt(cp, "at_least", 1))
                    got = cpm.get_inst_coverage()
                    sym.check("inst_cp_coverage(%s)" % cp["name"], abs(got - exp) < EPS)
                    sym.check("cp_cov_range", 0.0 <= got <= 100.0)
                    parts.append((exp, opt(cp, "weight", 1)))
                for ci2, cr in enumerate(spec.get("crosses", [])):
                    xm = m.cross_l[ci2]
                    hits = [xm.get_bin_hits(bi) for bi in range(xm.get_n_bins())]
                    exp = cp_cov(sym, hits, opt(cr, "at_least", 1))
                    sym.check("inst_cross_coverage", abs(xm.get_coverage() - exp) < EPS)
                    parts.append((exp, opt(cr, "weight", 1)))
                expcg = weighted(parts)
                got = insts[k2].get_inst_coverage()
                sym.check("cg_cov_range", 0.0 <= got <= 100.0)
                if expcg is not None:
                    sym.check("inst_cg_coverage", abs(got - expcg) < 1e-3)
                    sym.check("hundred_iff_all_covered", (abs(got - 100.0) < 1e-9) == all(abs(c - 100.0) < 1e-9 for c, w in parts if w > 0))
                sym.check("inst_coverage_monotone", got >= prev_inst_cov[k2] - EPS)
                prev_inst_cov[k2] = got
            parts = []
            for ci, cp in enumerate(spec["cps"]):
                tcp = tm.coverpoint_l[ci]
                hits = [tcp.get_bin_hits(bi) for bi in range(tcp.get_n_bins())]
                parts.append((cp_cov(sym, hits, opt(cp, "at_least", 1)), opt(cp, "weight", 1)))
            for ci2, cr in enumerate(spec.get("crosses", [])):
                tx = tm.cross_l[ci2]
                hits = [tx.get_bin_hits(bi) for bi in range(tx.get_n_bins())]
                parts.append((cp_cov(sym, hits, opt(cr, "at_least", 1)), opt(cr, "weight", 1)))
            expt = weighted(parts)
            got = insts[0].get_coverage()
            sym.check("type_cov_range", 0.0 <= got <= 100.0)
            if expt is not None:
                sym.check("type_cg_coverage", abs(got - expt) < 1e-3)
            sym.check("type_coverage_monotone", got >= prev_type_cov - EPS)
            sym.check("all_instances_report_same_type_coverage", all(abs(c.get_coverage() - got) < EPS for c in insts))
            prev_type_cov = got
    return dict(harness=h, theory="int", sig=sig, standins=e3.coverage_standins, max_paths=item.get("max_paths", 8000),
                max_seconds=item.get("max_seconds", 150), desc="aggregate %s at_least=%s weights=%s inst=%d samples=%d" % (item.get("shape"), item.get("at_least_tag", 1), item.get("weights_tag", "1"), ninst, ns))


def shapes(t, sd):
    items = []
    U = ["u", 3]
    base_bins = {
        "arr": [["a", "array", None, [[0, 2]]]],
        "two": [["lo", "bin", [[0, 3]]], ["hi", "bin", [[4, 7]]]],
        "part": [["p", "array", 2, [[0, 5]]]],
        "one": [["all", "bin", [[0, 7]]]],          # fully covered after a single sample: later samples must still reach the type
        "onehalf": [["lo", "bin", [[0, 3]]]],
    }
    ns = 2 if t == "quick" else 3
    for bn, bins in base_bins.items():
        for ninst in (1, 2, 3):
            for al in (1, 2):
                if t == "quick" and ninst == 3 and bn != "two":
                    continue
                spec = {"cps": [{"name": "p1", "type": U, "bins": bins, "at_least": al}]}
                items.append(dict(spec=spec, ninst=ninst, nsamples=ns if ninst < 3 else 2, shape="1cp %s" % bn, at_least_tag=al))
    # two coverpoints with weights, covergroup-level at_least, a cross
    for w1, w2 in ((1, 1), (2, 1), (1, 0), (0, 0), (3, 2)):
        spec = {"cps": [{"name": "p1", "type": ["u", 2], "bins": base_bins["two"][:1] + [["hi", "bin", [[2, 3]]]], "weight": w1},
                        {"name": "p2", "type": ["u", 2], "bins": [["z", "bin", [0]], ["nz", "bin", [[1, 3]]]], "weight": w2}]}
        spec["cps"][0]["bins"] = [["lo", "bin", [[0, 1]]], ["hi", "bin", [[2, 3]]]]
        items.append(dict(spec=spec, ninst=2, nsamples=2, shape="2cp weights", weights_tag="%d,%d" % (w1, w2)))
    spec = {"cps": [{"name": "p1", "type": ["u", 2], "bins": [["lo", "bin", [[0, 1]]], ["hi", "bin", [[2, 3]]]]},
                    {"name": "p2", "type": ["u", 2], "bins": [["z", "bin", [0]], ["nz", "bin", [[1, 3]]]]}],
            "crosses": [{"name": "x", "cps": ["p1", "p2"]}], "options": {"at_least": 2}}
    items.append(dict(spec=spec, ninst=2, nsamples=2, shape="2cp+cross cg at_least=2", at_least_tag=2, max_seconds=240))
    spec2 = dict(spec); spec2 = {"cps": spec["cps"], "crosses": [{"name": "x", "cps": ["p1", "p2"], "weight": 2}]}
    items.append(dict(spec=spec2, ninst=2, nsamples=2, shape="2cp+cross weight", weights_tag="1,1,x2", max_seconds=240))
    # parameterised shape -> separate type, creation orders
    other = {"cps": [{"name": "p1", "type": U, "bins": [["a", "array", None, [[0, 3]]]]}]}
    for order in ("same_first", "other_first", "interleaved"):
        spec = {"cps": [{"name": "p1", "type": U, "bins": base_bins["arr"]}]}
        items.append(dict(spec=spec, other_spec=other, ninst=2, nsamples=2, shape="param shapes %s" % order, create_order=order))
    # variants whose bin arrays cover the same values with a different NUMBER of bins
    for na, nb in ((2, 4), (4, 2), (2, None), (3, 2)):
        for order in ("same_first", "other_first"):
            spec = {"cps": [{"name": "p1", "type": U, "bins": [["x", "array", na, [[0, 7]]]]}]}
            oth = {"cps": [{"name": "p1", "type": U, "bins": [["x", "array", nb, [[0, 7]]]]}]}
            items.append(dict(spec=spec, other_spec=oth, ninst=2, nsamples=2, shape="bin arrays of %s and %s bins, %s" % (na, nb, order), create_order=order))
    # shapes that differ in one coverpoint only (first / last of two, middle of three)
    cpa = {"name": "p1", "type": ["u", 2], "bins": [["lo", "bin", [[0, 1]]], ["hi", "bin", [[2, 3]]]]}
    cpa2 = {"name": "p1", "type": ["u", 2], "bins": [["lo", "bin", [[0, 1]]], ["hi", "array", None, [[2, 3]]]]}
    cpb = {"name": "p2", "type": ["u", 2], "bins": [["z", "bin", [0]], ["nz", "bin", [[1, 3]]]]}
    cpb2 = {"name": "p2", "type": ["u", 2], "bins": [["z", "bin", [0]], ["n1", "bin", [1]], ["n2", "bin", [[2, 3]]]]}
    cpc = {"name": "p3", "type": ["u", 1], "bins": [["b", "array", None, [[0, 1]]]]}
    for sp, ot, tag in (({"cps": [cpa, cpb]}, {"cps": [cpa2, cpb]}, "first of two"), ({"cps": [cpa, cpb]}, {"cps": [cpa, cpb2]}, "last of two"),
                        ({"cps": [cpa, cpb, cpc]}, {"cps": [cpa, cpb2, cpc]}, "middle of three"), ({"cps": [cpa, cpb, cpc]}, {"cps": [cpa2, cpb, cpc]}, "first of three")):
        for order in ("same_first", "other_first"):
            items.append(dict(spec=sp, other_spec=ot, ninst=2, nsamples=1 if t == "quick" else 2, shape="shapes differ in the %s coverpoint, %s" % (tag, order), create_order=order,
                              max_seconds=240))
    return items


def main():
    assert_repo_import()
    chk = Check("C12", "other",
                explanation="bounded symbolic execution (E3 symex-lite, z3 Int) of the real covergroup registry / sampling / coverage code "
                            "through the public API: the sample values and WHICH of 1..3 instances samples are symbolic over sequences of "
                            "2 (quick) / 3 (thorough) samples; after every sample z3 shows that instance hits count only the instance's own "
                            "samples, type hits are the bin-wise sum over instances of the shape, another shape's type is untouched, and on "
                            "every path the coverage numbers equal the reference (share of bins with hits >= at_least, weight-averaged), "
                            "lie in 0..100, never decrease and are 100 iff all weighted items are fully covered",
                functions=["vsc.impl.coverage_registry.CoverageRegistry.register_cg", "vsc.model.covergroup_model.CovergroupModel.sample/equals/clone/"
                           "get_coverage/get_inst_coverage", "vsc.model.coverpoint_model.CoverpointModel.coverage_ev/get_inst_coverage/set_target_value_cache",
                           "vsc.model.coverpoint_cross_model.CoverpointCrossModel.sample/get_coverage", "vsc.impl.options.Options.create_model",
                           "vsc.coverage.covergroup.get_coverage/get_inst_coverage"])
    fails = symex.selftest(nrand=50)
    if fails:
        chk.harness_error("symex operator self-test failed: %s" % fails[:3])
        chk.finish()
    chk.assume(*e3.STANDIN_NOTES)
    chk.assume("coverage percentages are concrete floats on each path (bin counts are compared with at_least by forking); compared with tolerance 1e-6 / 1e-3")
    t = tier()
    chk.bound("1..3 instances of one shape (+1 instance of a different shape, three creation orders); 2-3 bit sample types; bins: per-value array, "
              "two ranges, 2-way partition; at_least in {1,2} (coverpoint and covergroup level); weights {0,1,2,3}; one cross; %d-sample sequences" % (2 if t == "quick" else 3))
    chk.extra["rule"] = "one evaluation = one population/option configuration explored over all paths; distinct = distinct configurations"
    items = shapes(t, seed())
    items.sort(key=lambda it: -(it["nsamples"] * it["ninst"] * len(it["spec"]["cps"]) + 5 * len(it["spec"].get("crosses", []))))
    e3.run_e3(chk, items, build, replay_module="checks.c12", chunk=1)
    chk.finish()


if __name__ == "__main__":
    main()
