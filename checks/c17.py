"""C17 -- pre_randomize / post_randomize run once each, before and after the solve (E1 + hook event log)."""
from vf.common import Check, assert_repo_import, tier, seed
from vf import gen, e1run, hooks

KINDS = ("hook_count", "hook_order", "under_constrained", "over_constrained", "returned_values_violate", "nonrandom_changed",
         "spurious_failure", "missed_failure", "other_exception", "list_facade")


def main():
    assert_repo_import()
    chk = Check("C17", "translation_validation",
                explanation="object trees (depth 3, sub-objects random and non-random at every level, lists of objects) whose classes define "
                            "pre_randomize/post_randomize are randomized through all call kinds; the callbacks log (object, phase, visible values, "
                            "number of solver-trace events so far). Decided: each callback runs exactly once iff the object and all its ancestors "
                            "are random in the call, every pre_randomize precedes all solver activity and every post_randomize follows the last "
                            "solver event and sees the final values; and - by z3, for all random-field values - the formula the solver saw is "
                            "equivalent to the reference instantiated with the values pre_randomize assigned to non-random fields",
                functions=["vsc.model.randomizer.Randomizer.do_randomize (pre/post propagation)", "vsc.model.field_composite_model.pre_randomize/post_randomize/set_used_rand",
                           "vsc.model.field_array_model.pre_randomize/post_randomize", "vsc.rand_obj.do_pre_randomize/do_post_randomize"])
    chk.assume(*e1run.E1_ASSUMPTIONS)
    chk.assume("the solver's role here is the equivalence with the reference that uses pre_randomize's assignments; counting and ordering are "
               "observations on the real run (event log vs mirror trace positions)")
    chk.bound("8 tree shapes (s1/s2/list random or not) x 11 calls: randomize, randomize_with, vsc.randomize on the top object, on a sub-object, on a "
              "non-random sub-sub-object, on list elements, on two roots, and an unsatisfiable call")
    specs = gen.c17_programs(tier(), seed())
    chk.extra["rule"] = "one evaluation = one call with hook log and formula decided; distinct = distinct (tree shape, call)"
    e1run.run_specs(chk, specs, KINDS, opts={"hooks": [hooks.prepost_hook], "check_lists": True})
    chk.finish()


if __name__ == "__main__":
    main()
