"""C16 -- a failed or aborted call does not poison later calls (fault enumeration + E1 decision of every later call)."""
from vf.common import Check, assert_repo_import, tier, seed
from vf import gen, e1run

KINDS = ("not_idle", "other_exception", "spurious_failure", "missed_failure", "under_constrained", "over_constrained",
         "returned_values_violate", "nonrandom_changed", "out_of_type")


def main():
    assert_repo_import()
    chk = Check("C16", "fault_enumeration",
                explanation="fault points are enumerated - a user exception at each statement position of a constraint body during construction "
                            "(also nested in if_then/foreach, in a dynamic block, in the constructor), at each position of a randomize_with body, "
                            "in pre_randomize and post_randomize (top object and sub-object), and calls made unsatisfiable - each followed by "
                            "further use of the same object and of freshly constructed objects using solve_order/foreach/dist. After every "
                            "operation the shared construction stacks and the object models are inspected (idle stacks, no ConstraintOverrideModel, "
                            "no solver node, no field left marked random), and every later call is DECIDED by z3 for all random-field values against "
                            "the reference semantics (equivalence of the asserted formula, failure iff unsatisfiable) - i.e. it behaves as in a session "
                            "where the fault never happened",
                functions=["vsc.rand_obj (_randobj interposer __init__, build_field_model, __enter__/__exit__, randomize)", "vsc.methods.randomize/randomize_with",
                           "vsc.impl.ctor (constraint_scope_stack, expr_l, srcinfo_mode_s, foreach_arr_s)", "vsc.impl.expr_mode", "vsc.constraints (context managers)",
                           "vsc.model.randomizer.Randomizer.do_randomize/randomize (failure path, finally)", "vsc.visitors.constraint_override_rollback_visitor",
                           "vsc.model.rand_set_dispose_visitor", "vsc.model.field_composite_model.pre_randomize/post_randomize"])
    chk.assume(*e1run.E1_ASSUMPTIONS)
    chk.assume("an exception class defined in the generated user code (UserFault) propagating out of a call is legitimate; any other non-SolveFailure "
               "exception is a violation", "the idle inspection is an observation of module state after each operation (vsc.impl.ctor / expr_mode stacks, model trees)")
    t = tier()
    chk.bound("8 faulty classes (raise at 4 block positions, in if_then, in foreach, in a dynamic block, in __init__), 5+2 inline fault positions, "
              "pre/post hooks on top object and sub-object, unsatisfiable calls; %d seeded fault histories of 2..5 faults" % (25 if t == "quick" else 2500))
    specs = gen.c16_programs(t, seed())
    chk.extra["rule"] = "one evaluation = one operation after which state is inspected / one later call decided; distinct = distinct (history, position)"
    from vf import hooks
    e1run.run_specs(chk, specs, KINDS + ("soft_guard", "soft_missing", "soft_priority", "soft_outcome", "list_facade"), opts={"check_idle": True, "check_lists": True, "hooks": [hooks.soft_hook]})
    chk.finish()


if __name__ == "__main__":
    main()
