"""C19 -- wildcard bins match exactly the values that agree with the pattern.

E3 (symex-lite, bv theory): the sample value, and for (value, mask) pairs the pattern value (and for single bins the
mask as well) are symbolic; masks of array bins, pattern strings and bin counts are enumerated.
"""
import itertools, random
from vf import symex, e3
from vf.symex import SInt, SBool, And, Or, Not, Ite
from vf.common import Check, assert_repo_import, tier, seed

NB = 16   # bits of symbolic sample / pattern values


def ref_parse(s):
    """independent digit-by-digit parse of a wildcard string -> (value, mask, nbits)"""
    base = {"0b": 1, "0o": 3, "0x": 4}[s[:2].lower()]
    value = mask = n = 0
    for ch in s[2:]:
        if ch == "_":
            continue
        value <<= base; mask <<= base; n += base
        if ch in "xX?":
            continue
        value |= int(ch, 1 << base)
        mask |= (1 << base) - 1
    return value, mask, n


def matching_values(value, mask, nbits):
    return [v for v in range(1 << nbits) if (v & mask) == (value & mask)]


def ref_partition(values, nbins):
    """property text: ascending values split into n consecutive equal bins, remainder in the last; one bin per value
    when no count is given (or when the count is not smaller than the number of values)"""
    values = sorted(values)
    if nbins is None or nbins >= len(values):
        return [[v] for v in values]
    per = len(values) // nbins
    out = [values[i * per:(i + 1) * per] for i in range(nbins)]
    out[-1].extend(values[nbins * per:])
    return out


def _mk_cg(vsc, bins, width=NB):
    e3.reset_coverage_registry()

    @vsc.covergroup
    class CG(object):
        def __init__(self):
            self.with_sample(dict(a=vsc.bit_t(width)))
            self.cp = vsc.coverpoint(self.a, bins=bins)
    return CG()


def build(item):
    import vsc
    from vsc.impl.wildcard_bin_factory import WildcardBinFactory
    kind = item["kind"]
    sig = {"harness": kind}

    if kind == "single_tuple":
        npat = item["npat"]
        sig["npat"] = npat

        def h(sym):
            pats = [(sym.int("value%d" % i, 0, (1 << NB) - 1), sym.int("mask%d" % i, 0, (1 << NB) - 1))
                    for i in range(npat)]
            v = sym.int("v", 0, (1 << NB) - 1)
            cg = _mk_cg(vsc, {"w": vsc.wildcard_bin(*pats)})
            cp = cg.get_model().coverpoint_l[0]
            sym.check("n_bins", cp.get_n_bins() == 1)
            cg.sample(v)
            exp = Or(*[(v & m) == (val & m) for val, m in pats])
            hits = cp.get_bin_hits(0)
            sym.check("hit_iff_match", (hits == 1) == exp)
            sym.check("hit_0_or_1", Or(hits == 0, hits == 1))
        return dict(harness=h, theory="bv", sig=sig, standins=e3.coverage_standins,
                    desc="single wildcard bin, %d symbolic (value,mask) pattern(s), symbolic sample" % npat)

    if kind == "single_concrete":
        pats = [tuple(p) for p in item["pats"]]
        nb = item["nbits"]

        def h(sym):
            v = sym.int("v", 0, (1 << (nb + 1)) - 1)
            cg = _mk_cg(vsc, {"w": vsc.wildcard_bin(*pats)}, width=nb + 1)
            cp = cg.get_model().coverpoint_l[0]
            cg.sample(v)
            exp = Or(*[(v & m) == (val & m) for val, m in pats])
            sym.check("hit_iff_match", (cp.get_bin_hits(0) == 1) == exp)
        return dict(harness=h, theory="bv", sig=sig, standins=e3.coverage_standins,
                    desc="single wildcard bin, concrete patterns %s, symbolic sample" % (pats,))

    if kind == "single_str":
        strs = item["strs"]

        def h(sym):
            v = sym.int("v", 0, (1 << NB) - 1)
            cg = _mk_cg(vsc, {"w": vsc.wildcard_bin(*strs)})
            cp = cg.get_model().coverpoint_l[0]
            cg.sample(v)
            terms = []
            for s in strs:
                val, m, n = ref_parse(s)
                terms.append((v & m) == (val & m))
            sym.check("hit_iff_match", (cp.get_bin_hits(0) == 1) == Or(*terms))
        return dict(harness=h, theory="bv", sig=sig, standins=e3.coverage_standins,
                    desc="single wildcard bin strings=%s" % (strs,))

    if kind == "binlist":
        mask = item["mask"]
        n = max(1, mask.bit_length())
        sig["mask_top_wild"] = False

        def h(sym):
            value = sym.int("value", 0, (1 << NB) - 1)
            v = sym.int("v", 0, (1 << n) - 1)
            ranges = WildcardBinFactory.valmask2binlist(value, mask)
            inr = Or(*[And(v >= r[0], v <= r[1]) for r in ranges])
            sym.check("covers_exactly", inr == ((v & mask) == (value & mask)))
            for i in range(len(ranges)):
                sym.check("range_ordered", ranges[i][0] <= ranges[i][1])
                if i + 1 < len(ranges):
                    sym.check("ascending_disjoint_nonadjacent", ranges[i][1] + 1 < ranges[i + 1][0])
        return dict(harness=h, theory="bv", sig=sig, standins=e3.coverage_standins,
                    desc="valmask2binlist mask=%s symbolic value" % bin(mask))

    if kind == "array":
        pats = item["pats"]          # list of strings or (value, mask) tuples (concrete)
        nb = item["nbins"]
        vals = set()
        width = 1
        top_wild = False
        for p in pats:
            if isinstance(p, str):
                val, m, n = ref_parse(p)
                if n > m.bit_length():
                    top_wild = True
            else:
                val, m = p
                n = max(1, m.bit_length())
            width = max(width, n)
            vals.update(matching_values(val, m, n))
        sig["top_wild"] = top_wild
        sig["npat"] = len(pats)
        exp_bins = ref_partition(vals, nb)

        def h(sym):
            v = sym.int("v", 0, (1 << (width + 1)) - 1)     # one bit wider than the pattern: also non-matching values
            args = [list(p) if isinstance(p, tuple) else p for p in pats]
            cg = _mk_cg(vsc, {"w": vsc.wildcard_bin_array([] if nb is None else [nb], *args)}, width=width + 1)
            cp = cg.get_model().coverpoint_l[0]
            nbins = cp.get_n_bins()
            sym.check("n_bins", nbins == len(exp_bins))
            before = [cp.get_bin_hits(i) for i in range(nbins)]
            cg.sample(v)
            for i in range(min(nbins, len(exp_bins))):
                in_bin = Or(*[v == x for x in exp_bins[i]]) if len(exp_bins[i]) <= 8 else \
                    Or(*[And(v >= lo, v <= hi) for lo, hi in _runs(exp_bins[i])])
                sym.check("bin_hit_iff_member[%d]" % i, (cp.get_bin_hits(i) - before[i] == 1) == in_bin)
                sym.check("bin_delta_0_1[%d]" % i, Or(cp.get_bin_hits(i) == before[i], cp.get_bin_hits(i) == before[i] + 1))
        return dict(harness=h, theory="bv", sig=sig, standins=e3.coverage_standins, max_paths=3000,
                    desc="wildcard_bin_array pats=%s nbins=%s" % (pats, nb))
    if kind == "excluded":
        # ignore / illegal values are removed from wildcard bins and wildcard bin arrays as from ordinary bins
        pat, nb, excl, how, single = item["pat"], item["nbins"], item["excl"], item["how"], item["single"]
        val, m, n = ref_parse(pat)
        width = n
        exset = set()
        for x in excl:
            exset.update(range(x[0], x[1] + 1) if isinstance(x, (list, tuple)) else [x])
        vals = set(matching_values(val, m, n)) - exset
        exp_bins = [sorted(vals)] if single else ref_partition(vals, nb)
        sig["single"] = single

        def h(sym):
            e3.reset_coverage_registry()
            v = sym.int("v", 0, (1 << (width + 1)) - 1)
            spec = vsc.wildcard_bin(pat) if single else vsc.wildcard_bin_array([] if nb is None else [nb], pat)
            xb = vsc.bin(*[tuple(x) if isinstance(x, (list, tuple)) else x for x in excl])

            @vsc.covergroup
            class CG(object):
                def __init__(self):
                    self.with_sample(dict(a=vsc.bit_t(width + 1)))
                    if how == "ignore":
                        self.cp = vsc.coverpoint(self.a, bins={"w": spec}, ignore_bins={"x": xb})
                    else:
                        self.cp = vsc.coverpoint(self.a, bins={"w": spec}, illegal_bins={"x": xb})
            cg = CG()
            cp = cg.get_model().coverpoint_l[0]
            nbins = cp.get_n_bins()
            sym.check("n_bins", nbins == len(exp_bins))
            cg.sample(v)
            for i in range(min(nbins, len(exp_bins))):
                if single:
                    # a single wildcard bin looks at the masked bits only
                    in_bin = And((v & m) == (val & m), *[v != x for x in sorted(exset)])
                else:
                    in_bin = Or(*[v == x for x in exp_bins[i]]) if exp_bins[i] else (v != v)
                sym.check("bin_hit_iff_member[%d]" % i, (cp.get_bin_hits(i) == 1) == in_bin)
            xh = cp.get_ignore_bin_hits(0) if how == "ignore" else cp.get_illegal_bin_hits(0)
            sym.check("excluded_counter", (xh == 1) == Or(*[v == x for x in sorted(exset)]))
        return dict(harness=h, theory="bv", sig=sig, standins=e3.coverage_standins, max_paths=3000,
                    desc="wildcard %s %s nbins=%s with %s values %s" % ("bin" if single else "bin array", pat, nb, how, excl))
    if kind == "single_signed":
        # the sampled field is signed: a negative sample matches through its two's-complement bit pattern
        pats = [tuple(p) for p in item["pats"]]
        w = item["width"]

        def h(sym):
            e3.reset_coverage_registry()
            v = sym.int("v", -(1 << (w - 1)), (1 << (w - 1)) - 1)

            @vsc.covergroup
            class CG(object):
                def __init__(self):
                    self.with_sample(dict(a=vsc.int_t(w)))
                    self.cp = vsc.coverpoint(self.a, bins={"w": vsc.wildcard_bin(*pats)})
            cg = CG()
            cp = cg.get_model().coverpoint_l[0]
            cg.sample(v)
            full = (1 << w) - 1
            exp = Or(*[((v & full) & m) == (val & m) for val, m in pats])
            sym.check("hit_iff_match_signed_sample", (cp.get_bin_hits(0) == 1) == exp)
        return dict(harness=h, theory="bv", sig=sig, standins=e3.coverage_standins,
                    desc="single wildcard bin %s on a signed %d-bit sample" % (pats, w))

    if kind == "two_instances":
        # the pattern is a constructor parameter: instances with different patterns are different types; the type-level bin of each
        # counts exactly the samples of its own instances that agree with its own pattern
        p1, p2 = [tuple(x) for x in item["pats"]]

        def h(sym):
            e3.reset_coverage_registry()
            v1 = sym.int("v1", 0, (1 << NB) - 1)
            v2 = sym.int("v2", 0, (1 << NB) - 1)

            @vsc.covergroup
            class CG(object):
                def __init__(self, pat):
                    self.with_sample(dict(a=vsc.bit_t(NB)))
                    self.cp = vsc.coverpoint(self.a, bins={"w": vsc.wildcard_bin(pat)})
            c1, c2 = CG(p1), CG(p2)
            c1.sample(v1)
            c2.sample(v2)
            m1, m2 = c1.get_model(), c2.get_model()
            same = ((p1[0] & p1[1]) == (p2[0] & p2[1])) and p1[1] == p2[1]
            h1 = Ite((v1 & p1[1]) == (p1[0] & p1[1]), 1, 0)
            h2 = Ite((v2 & p2[1]) == (p2[0] & p2[1]), 1, 0)
            sym.check("inst1_hits", m1.coverpoint_l[0].get_bin_hits(0) == h1)
            sym.check("inst2_hits", m2.coverpoint_l[0].get_bin_hits(0) == h2)
            if same:
                sym.check("same_pattern_one_type", m1.type_cg is m2.type_cg)
                sym.check("type_hits_sum", m1.type_cg.coverpoint_l[0].get_bin_hits(0) == h1 + h2)
            else:
                sym.check("different_patterns_separate_types", m1.type_cg is not m2.type_cg)
                sym.check("type1_hits", m1.type_cg.coverpoint_l[0].get_bin_hits(0) == h1)
                sym.check("type2_hits", m2.type_cg.coverpoint_l[0].get_bin_hits(0) == h2)
        return dict(harness=h, theory="bv", sig=sig, standins=e3.coverage_standins,
                    desc="two instances parameterised by wildcard patterns %s / %s" % (p1, p2))

    if kind == "shared_array":
        # one wildcard_bin_array specification object used by two coverpoints (and by a second covergroup instance)
        pat = item["pat"]
        nb = item["nbins"]
        val, m, n = ref_parse(pat)
        vals = matching_values(val, m, n)
        exp_bins = ref_partition(set(vals), nb)

        def h(sym):
            e3.reset_coverage_registry()
            spec_obj = vsc.wildcard_bin_array([] if nb is None else [nb], pat)
            va = sym.int("va", 0, (1 << (n + 1)) - 1)
            vb = sym.int("vb", 0, (1 << (n + 1)) - 1)

            @vsc.covergroup
            class CG(object):
                def __init__(self):
                    self.with_sample(dict(a=vsc.bit_t(n + 1), b=vsc.bit_t(n + 1)))
                    self.cp_a = vsc.coverpoint(self.a, bins={"w": spec_obj})
                    self.cp_b = vsc.coverpoint(self.b, bins={"w": spec_obj})
            c1 = CG()
            c2 = CG()
            c2.sample(va, vb)
            for tag, cp, v in (("second_instance_cp_a:", c2.get_model().coverpoint_l[0], va), ("second_instance_cp_b:", c2.get_model().coverpoint_l[1], vb)):
                sym.check(tag + "n_bins", cp.get_n_bins() == len(exp_bins))
                for i in range(min(cp.get_n_bins(), len(exp_bins))):
                    in_bin = Or(*[v == x for x in exp_bins[i]])
                    sym.check(tag + "bin_hit_iff_member[%d]" % i, (cp.get_bin_hits(i) == 1) == in_bin)
            for cp in c1.get_model().coverpoint_l:
                sym.check("first_instance_n_bins", cp.get_n_bins() == len(exp_bins))
        return dict(harness=h, theory="bv", sig=sig, standins=e3.coverage_standins, max_paths=3000,
                    desc="shared wildcard_bin_array %s nbins=%s" % (pat, nb))
    raise Exception(kind)


def _runs(vals):
    vals = sorted(vals)
    out = []
    for x in vals:
        if out and out[-1][1] + 1 == x:
            out[-1][1] = x
        else:
            out.append([x, x])
    return out


def str2bin_check(chk, t):
    """str2bin against the independent parse, all strings up to the bound (finite: enumerated)"""
    from vsc.impl.wildcard_bin_factory import WildcardBinFactory
    n = 0
    nd = 4 if t == "quick" else 5
    for L in range(1, nd + 1):
        for digs in itertools.product("01x?_", repeat=L):
            s = "0b" + "".join(digs)
            if all(d == "_" for d in digs):
                continue
            n += 1
            got = WildcardBinFactory.str2bin(s)
            val, m, _ = ref_parse(s)
            if (got[0] & got[1], got[1]) != (val & m, m):
                chk.violation({"harness": "str2bin", "base": 2}, "str2bin(%r) = %r, expected value/mask %r" % (s, got, (val, m)),
                              {"engine": "script", "source": "from vsc.impl.wildcard_bin_factory import WildcardBinFactory as W\n"
                               "assert W.str2bin(%r) == %r" % (s, (val, m))})
    for pre, alpha in (("0o", "07x?_3"), ("0x", "0fx?_a9"), ("0X", "F1X"), ("0O", "7x"), ("0B", "1x")):
        for L in range(1, 4):
            for digs in itertools.product(alpha, repeat=L):
                s = pre + "".join(digs)
                if all(d == "_" for d in digs):
                    continue
                n += 1
                got = WildcardBinFactory.str2bin(s)
                val, m, _ = ref_parse(s)
                if (got[0] & got[1], got[1]) != (val & m, m):
                    chk.violation({"harness": "str2bin", "base": pre}, "str2bin(%r) = %r, expected %r" % (s, got, (val, m)),
                                  {"engine": "script", "source": "from vsc.impl.wildcard_bin_factory import WildcardBinFactory as W\n"
                                   "assert W.str2bin(%r) == %r" % (s, (val, m))})
    chk.count("str2bin", n)
    chk.extra["str2bin_strings_enumerated"] = n


def items_for(t, sd):
    rnd = random.Random(sd)
    items = [dict(kind="single_tuple", npat=1), dict(kind="single_tuple", npat=2)]
    if t == "thorough":
        items.append(dict(kind="single_tuple", npat=3))
    # single bins with several concrete (value, mask) patterns: every pair of 2-bit patterns (quick) / 3-bit (thorough),
    # which includes equal values with different masks, equal masks, nested and disjoint patterns
    nb = 2 if t == "quick" else 3
    allp = [(val, m) for val in range(1 << nb) for m in range(1 << nb)]
    for p1, p2 in itertools.product(allp, repeat=2):
        items.append(dict(kind="single_concrete", pats=[p1, p2], nbits=nb))
    for _ in range(60 if t == "quick" else 4000):
        k = rnd.randint(2, 4)
        items.append(dict(kind="single_concrete", pats=[(rnd.randrange(64), rnd.randrange(64)) for _ in range(k)], nbits=6))
    items.append(dict(kind="single_str", strs=["0b0x", "0bx0"]))
    items.append(dict(kind="single_str", strs=["0x0?", "0x?0", "0b0000_0000"]))
    # single bins from strings
    strs = ["0b1x0x", "0bxx01", "0b?1", "0x8x", "0xx2", "0o7x1", "0b1_x0", "0b0000", "0bxxxx", "0x?f?"]
    for s in strs:
        items.append(dict(kind="single_str", strs=[s]))
    items.append(dict(kind="single_str", strs=["0b1x0x", "0bxx01"]))
    items.append(dict(kind="single_str", strs=["0x8x", "0o17x", "0b111"]))
    # valmask2binlist: all 8-bit masks with the top bit set (quick), 10-bit (thorough) + seeded wider ones
    nb = 8 if t == "quick" else 12
    for mask in range(1, 1 << nb):
        items.append(dict(kind="binlist", mask=mask))
    for _ in range(20 if t == "quick" else 1000):
        w = rnd.randint(nb + 1, 16)
        m = rnd.getrandbits(w) | (1 << (w - 1))
        # keep the number of wildcard bits small enough for the expansion loop
        while bin(m).count("0") - 1 > 8:
            m |= 1 << rnd.randrange(w)
        items.append(dict(kind="binlist", mask=m))
    # arrays through the public API
    arr = []
    for L in (2, 3, 4):
        for digs in itertools.product("01x", repeat=L):
            s = "0b" + "".join(digs)
            if "x" in digs and (t == "thorough" or rnd.random() < 0.5 or L <= 3):
                arr.append(s)
    for s in arr:
        items.append(dict(kind="array", pats=[s], nbins=None))
    for s in arr[:: (3 if t == "quick" else 1)]:
        for nbc in (1, 2, 3):
            items.append(dict(kind="array", pats=[s], nbins=nbc))
    for s in ("0x1x", "0xx1", "0o1x", "0ox7", "0b1xx_x0x1"):
        items.append(dict(kind="array", pats=[s], nbins=None))
        items.append(dict(kind="array", pats=[s], nbins=3))
    tup = [(0x10, 0x1c), (0x81, 0xc3), (0x05, 0x0f), (0x20, 0x30), (0xa, 0xa)]
    for p in tup:
        items.append(dict(kind="array", pats=[p], nbins=None))
        items.append(dict(kind="array", pats=[p], nbins=2))
    # several patterns per bin: disjoint, adjacent, overlapping, nested
    multi = [["0b00xx", "0b11xx"], ["0b0xx", "0b1xx"], ["0b1xx", "0b101"], ["0b1xxx", "0b10xx"], ["0b0x1", "0b1x0"],
             ["0b01xx", "0b0x11"], [(0x10, 0x1c), (0x18, 0x1c)], ["0b10xx", "0b1x0x", "0b0001"]]
    for ps in multi:
        items.append(dict(kind="array", pats=ps, nbins=None))
        items.append(dict(kind="array", pats=ps, nbins=2))
    # signed samples, parameterised instances, specification objects used more than once
    for w, pats in ((8, [(0x80, 0x80)]), (8, [(0x0f, 0x0f)]), (4, [(0x8, 0xc), (0x1, 0x3)]), (6, [(0x20, 0x30)]), (8, [(0xff, 0xff)]), (5, [(0, 0x10)])):
        items.append(dict(kind="single_signed", width=w, pats=pats))
    for pat, excl in (("0b1xxx", [9]), ("0b10xx", [9]), ("0b1x0x", [[8, 9]]), ("0bx1x", [2, 7]), ("0b1xxx", [[10, 13], 15])):
        for how in ("ignore", "illegal"):
            items.append(dict(kind="excluded", pat=pat, nbins=None, excl=excl, how=how, single=True))
            items.append(dict(kind="excluded", pat=pat, nbins=None, excl=excl, how=how, single=False))
            items.append(dict(kind="excluded", pat=pat, nbins=2, excl=excl, how=how, single=False))
    for p1, p2 in (((0x80, 0xf0), (0x80, 0xff)), ((0x80, 0xf0), (0x80, 0xf0)), ((0x80, 0xfc), (0x80, 0xf3)), ((0x01, 0x01), (0x01, 0x03)), ((0x10, 0xf0), (0x20, 0xf0)),
                   ((0x00, 0x0f), (0x00, 0xff))):
        items.append(dict(kind="two_instances", pats=[p1, p2]))
    for pat, nbc in (("0b1xx", 2), ("0b1xx", None), ("0bx1x0", 3), ("0b0xx1", 2), ("0x1x", 4)):
        items.append(dict(kind="shared_array", pat=pat, nbins=nbc))
    return items


def main():
    assert_repo_import()
    chk = Check("C19", "other",
                explanation="bounded symbolic execution (E3 symex-lite, z3 bit-vectors) of the real wildcard-bin code through the "
                            "public covergroup API: sample value, pattern value (and mask for single bins) are symbolic %d-bit "
                            "values; every feasible path is explored and the hit/no-hit obligation discharged by z3; masks of "
                            "array bins, pattern strings and bin counts are enumerated" % NB,
                functions=["vsc.impl.wildcard_bin_factory.WildcardBinFactory.str2bin/valmask2binlist",
                           "vsc.coverage.wildcard_bin/wildcard_bin_array/coverpoint/covergroup.sample",
                           "vsc.model.coverpoint_bin_single_wildcard_model.CoverpointBinSingleWildcardModel.sample",
                           "vsc.model.coverpoint_bin_collection_model.CoverpointBinCollectionModel.mk_collection/sample",
                           "vsc.model.coverpoint_bin_array_model / single_val / single_range / single_bag .sample",
                           "vsc.model.coverpoint_model.CoverpointModel.sample/coverage_ev"])
    fails = symex.selftest(nrand=50)
    if fails:
        chk.harness_error("symex operator self-test failed: %s" % fails[:3])
        chk.finish()
    chk.assume(*e3.STANDIN_NOTES)
    chk.assume("array bins given as (value, mask) carry no width: the pattern width is taken to be mask.bit_length(); for strings it is "
               "the number of digits times the bits per digit")
    t = tier()
    chk.bound("sample and pattern values: %d-bit symbolic; single bins: value and mask both symbolic, 1..%d patterns" % (NB, 3 if t == "thorough" else 2),
              "valmask2binlist: every mask up to %d bits + seeded masks up to 16 bits (<= 8 wildcard bits)" % (8 if t == "quick" else 12),
              "array bins: binary strings of 2..4 digits over {0,1,x}, hex/octal samples, bin counts none/1/2/3, up to 3 patterns per bin",
              "str2bin: all binary strings of <= %d digits over {0,1,x,?,_}, 1..3 digit octal/hex strings over representative digits (enumerated)" % (4 if t == "quick" else 5))
    chk.extra["rule"] = "one evaluation = one harness configuration explored over all paths; distinct = distinct configurations"
    str2bin_check(chk, t)
    e3.run_e3(chk, items_for(t, seed()), build, replay_module="checks.c19")
    chk.finish()


if __name__ == "__main__":
    main()
