"""C11 -- cross bins count joint hits of their coverpoints (E3, symbolic sample sequences)."""
import itertools, random
from vf import symex, e3, covref
from vf.symex import And, Or, Not, Ite
from vf.common import Check, assert_repo_import, tier, seed
from checks.c10 import in_ranges, ENUMS


def build(item):
    import vsc
    spec = item["spec"]
    ns = item["nsamples"]
    refs = [covref.ref_bins(cp, ENUMS) for cp in spec["cps"]]
    sig = {"harness": "cross", "shape": item.get("shape", "?")}
    enum_classes = covref.mk_enum_classes(ENUMS)

    def h(sym):
        e3.reset_coverage_registry()
        cg, order = covref.build_cg(vsc, spec, enum_classes)
        m = cg.get_model()
        base = {}
        if item.get("prestate"):
            # an arbitrary valid earlier state instead of a fresh covergroup: symbolic counts in every cross bin of the instance
            # and of its type, unhit sets consistent with at_least (pattern 'all': every bin already covered)
            from checks.c13 import inject
            for ci, cr in enumerate(spec["crosses"]):
                al = cr.get("at_least") or 1
                base[("i", ci)] = inject(sym, m.cross_l[ci], "Ix%d" % ci, al, item["prestate"])
                base[("t", ci)] = inject(sym, m.type_cg.cross_l[ci], "Tx%d" % ci, al, item["prestate"])
        samples = []   # per sample: {cpname: (v, iff)} and cross iffs
        for s in range(ns):
            args = []
            cur = {}
            for cp in spec["cps"]:
                t = cp["type"]
                if t[0] == "enum":
                    ev = item["enum_samples"][s]
                    v = ev
                    args.append(enum_classes[t[1]](ev))
                else:
                    lo, hi = covref.type_range(t)
                    v = sym.int("%s_%d" % (cp["name"], s), lo, hi)
                    args.append(v)
                iff = True
                if cp.get("iff"):
                    f = sym.int("%s_iff_%d" % (cp["name"], s), 0, 1)
                    iff = (f != 0)
                    args.append(f)
                cur[cp["name"]] = (v, iff)
            for cr in spec["crosses"]:
                iff = True
                if cr.get("iff"):
                    f = sym.int("%s_iff_%d" % (cr["name"], s), 0, 1)
                    iff = (f != 0)
                    args.append(f)
                cur["#" + cr["name"]] = iff
            samples.append(cur)
            cg.sample(*args)
        cpidx = {cp["name"]: i for i, cp in enumerate(spec["cps"])}
        for ci, cr in enumerate(spec["crosses"]):
            xm = m.cross_l[ci]
            dims = [len(refs[cpidx[n]]["bins"]) for n in cr["cps"]]
            total = 1
            for d in dims:
                total *= d
            sym.check("cross_n_bins", xm.get_n_bins() == total)
            if xm.get_n_bins() != total:
                continue
            k = 0
            for combo in itertools.product(*[range(d) for d in dims]):
                exp = 0
                for cur in samples:
                    conds = [cur["#" + cr["name"]]]
                    for n, bi in zip(cr["cps"], combo):
                        v, iff = cur[n]
                        conds.append(iff)
                        conds.append(in_ranges(v, refs[cpidx[n]]["bins"][bi][1]))
                    exp = exp + Ite(And(*conds), 1, 0)
                if ("i", ci) in base:
                    sym.check("type_cross_hits_from_state[%d]" % k, m.type_cg.cross_l[ci].get_bin_hits(k) == base[("t", ci)][k] + exp)
                    exp = base[("i", ci)][k] + exp
                sym.check("cross_hits[%s]" % (combo,), xm.get_bin_hits(k) == exp)
                # name and order follow the coverpoints' bins
                # "named after them": the names of the combination's bins appear in the cross bin's name, in the coverpoints' order
                # (the separator/bracketing is the library's choice)
                parts = [m.coverpoint_l[cpidx[n]].get_bin_name(bi) for n, bi in zip(cr["cps"], combo)]
                nm = xm.get_bin_name(k)
                pos, okn = 0, True
                for pt in parts:
                    j = nm.find(pt, pos)
                    if j < 0:
                        okn = False
                        break
                    pos = j + len(pt)
                sym.check("cross_bin_name[%d]" % k, okn)
                k += 1
            # type-level cross of a single instance agrees
            tx = m.type_cg.cross_l[ci]
            for k in range(total if ("i", ci) not in base else 0):
                sym.check("type_cross_hits[%d]" % k, tx.get_bin_hits(k) == xm.get_bin_hits(k))
    return dict(harness=h, theory="int", sig=sig, standins=e3.coverage_standins, max_paths=item.get("max_paths", 6000),
                max_seconds=item.get("max_seconds", 150), desc="cross %s x%d" % (item.get("shape"), ns))


def layouts():
    U = ["u", 4]
    return {
        "singles": [["a", "bin", [[0, 3]]], ["b", "bin", [5]], ["c", "bin", [[8, 15]]]],
        "array_then_singles": [["a", "array", None, [[1, 3]]], ["b", "bin", [0]], ["c", "bin", [[8, 9]]]],
        "partitioned": [["p", "array", 2, [[0, 6]]]],
        "two_arrays": [["a", "array", None, [[0, 1]]], ["b", "array", 2, [[4, 8]]]],
        "gappy": [["a", "bin", [1, 3]], ["b", "array", None, [5, 7]]],
        "multi_range_array": [["a", "array", None, [[1, 2], 5, [8, 9]]], ["z", "bin", [12]]],
        "wild": [["w", "wild", [[0b0100, 0b1100]]], ["lo", "bin", [[0, 3]]], ["hi", "bin", [[8, 15]]]],
    }


def _mk(L, l1, l2, iffs):
    return {"cps": [{"name": "p1", "type": ["u", 4], "bins": L[l1], "iff": "f" if iffs[1] else None},
                    {"name": "p2", "type": ["u", 4], "bins": L[l2], "iff": "f" if iffs[2] else None}],
            "crosses": [{"name": "x", "cps": ["p1", "p2"], "iff": "f" if iffs[0] else None}]}


def shapes(t, sd):
    rnd = random.Random(sd)
    L = layouts()
    items = []
    names = list(L)
    pairs = list(itertools.product(names, repeat=2))
    ns = 2 if t == "quick" else 3
    seq_pairs = {("array_then_singles", "partitioned"), ("singles", "partitioned"), ("gappy", "partitioned"), ("partitioned", "partitioned"),
                 ("wild", "partitioned"), ("partitioned", "wild"), ("multi_range_array", "partitioned")}
    for l1, l2 in pairs:
        for iffs in ((False, False, False), (True, False, False), (False, True, True), (True, True, True)):
            if t == "quick":
                # quick: every layout pair with one symbolic sample; 2-sample sequences (stale markers / iff caches) on a
                # targeted subset.  thorough: 3-sample sequences everywhere.
                if (l1, l2) in seq_pairs and iffs in ((False, False, False), (True, False, False)):
                    i2 = iffs if not iffs[0] else (True, False, True)
                    items.append(dict(spec=_mk(L, l1, l2, i2), nsamples=2, shape="%s*%s iff=%s" % (l1, l2, i2), max_seconds=150))
                items.append(dict(spec=_mk(L, l1, l2, iffs), nsamples=1, shape="%s*%s iff=%s" % (l1, l2, iffs)))
                continue
            spec = {"cps": [{"name": "p1", "type": ["u", 4], "bins": L[l1], "iff": "f" if iffs[1] else None},
                            {"name": "p2", "type": ["u", 4], "bins": L[l2], "iff": "f" if iffs[2] else None}],
                    "crosses": [{"name": "x", "cps": ["p1", "p2"], "iff": "f" if iffs[0] else None}]}
            items.append(dict(spec=spec, nsamples=ns if (not any(iffs) or t == "thorough") else 2, shape="%s*%s iff=%s" % (l1, l2, iffs)))
    # a sample arriving in an arbitrary earlier state (every cross bin already covered / alternating), also with at_least > 1
    for l1, l2, al, pat in (("singles", "partitioned", None, "all"), ("array_then_singles", "singles", 2, "all"), ("gappy", "two_arrays", None, "alt"),
                            ("partitioned", "wild", 3, "all"), ("singles", "singles", None, "none")):
        sp = _mk(L, l1, l2, (False, False, False))
        sp["crosses"][0]["at_least"] = al
        items.append(dict(spec=sp, nsamples=1 if t == "quick" else 2, shape="%s*%s from state %s at_least=%s" % (l1, l2, pat, al), prestate=pat))
    sp = _mk(L, "singles", "partitioned", (True, False, True))
    items.append(dict(spec=sp, nsamples=1 if t == "quick" else 2, shape="singles*partitioned iff from state all", prestate="all"))
    # three coverpoints
    for trip in (("singles", "partitioned", "two_arrays"), ("array_then_singles", "gappy", "partitioned")):
        spec = {"cps": [{"name": "p%d" % i, "type": ["u", 4], "bins": L[l]} for i, l in enumerate(trip)],
                "crosses": [{"name": "x", "cps": ["p0", "p1", "p2"]}]}
        items.append(dict(spec=spec, nsamples=1 if t == "quick" else 2, shape="3way %s" % (trip,), max_seconds=300, max_paths=20000))
    # auto-binned and signed coverpoints, two crosses in one covergroup
    spec = {"cps": [{"name": "p1", "type": ["u", 2]}, {"name": "p2", "type": ["s", 3], "auto_bin_max": 2},
                    {"name": "p3", "type": ["u", 4], "bins": L["partitioned"], "ignore": [["ig", [3]]]}],
            "crosses": [{"name": "x", "cps": ["p1", "p2"]}, {"name": "y", "cps": ["p3", "p1"], "iff": "f"}]}
    items.append(dict(spec=spec, nsamples=1 if t == "quick" else 2, shape="auto*signed + second cross", max_seconds=300))
    # more crosses than coverpoints, each with its own iff (type-level propagation indexes crosses and coverpoints separately)
    spec = {"cps": [{"name": "p1", "type": ["u", 2], "bins": L["singles"][:1] + [["c", "bin", [[2, 3]]]]}, {"name": "p2", "type": ["u", 2], "bins": [["z", "bin", [0]], ["nz", "bin", [[1, 3]]]]}],
            "crosses": [{"name": "xa", "cps": ["p1", "p2"], "iff": "f"}, {"name": "xb", "cps": ["p2", "p1"], "iff": "f"}, {"name": "xc", "cps": ["p1", "p2"], "iff": "f"},
                        {"name": "xd", "cps": ["p2", "p1"]}]}
    spec["cps"][0]["bins"] = [["lo", "bin", [[0, 1]]], ["hi", "bin", [[2, 3]]]]
    items.append(dict(spec=spec, nsamples=1 if t == "quick" else 2, shape="four crosses over two coverpoints, separate iffs", max_seconds=300, max_paths=20000))
    # enum cross
    for ev in ((0, 5), (9, 200)):
        spec = {"cps": [{"name": "p1", "type": ["enum", "E5"]}, {"name": "p2", "type": ["u", 4], "bins": L["array_then_singles"]}],
                "crosses": [{"name": "x", "cps": ["p1", "p2"]}]}
        items.append(dict(spec=spec, nsamples=2, shape="enum*array_then_singles", enum_samples=list(ev)))
    return items


def main():
    assert_repo_import()
    chk = Check("C11", "other",
                explanation="bounded symbolic execution (E3 symex-lite, z3 Int) of the real cross-coverage code through the public API: the "
                            "sample values of 2..3 coverpoints and the iff values of the cross and of each coverpoint are symbolic over "
                            "sequences of 2 (quick) / 3 (thorough) samples, so stale hit markers / iff caches from the previous sample are "
                            "reachable; z3 shows that every cross bin's count equals the number of samples whose conditions and value "
                            "combination match, and that bin names/order follow the coverpoints' bins; for a subset the samples arrive in an "
                            "arbitrary earlier state (symbolic counts in every cross bin, all bins already covered / alternating)",
                functions=["vsc.model.coverpoint_cross_model.CoverpointCrossModel.finalize/_build_hit_map/sample/get_bin_name/get_bin_hits",
                           "vsc.model.covergroup_model.CovergroupModel.sample", "vsc.model.coverpoint_model.CoverpointModel.sample/reset/set_target_value_cache",
                           "vsc.model.coverpoint_bin_*_model.sample/hit_idx", "vsc.coverage.cross/coverpoint/covergroup"])
    fails = symex.selftest(nrand=50)
    if fails:
        chk.harness_error("symex operator self-test failed: %s" % fails[:3])
        chk.finish()
    chk.assume(*e3.STANDIN_NOTES)
    chk.assume("bins of one coverpoint are pairwise disjoint in the cross specifications (a value hits at most one bin)")
    t = tier()
    chk.bound("2..3 coverpoints over 4-bit (and 2/3-bit auto-binned, signed, enum) types; bin layouts: singles, array followed by singles, "
              "partitioned collection, two arrays, gappy values; iff on cross and/or coverpoints; %d-sample sequences" % (2 if t == "quick" else 3))
    chk.extra["rule"] = "one evaluation = one cross specification explored over all paths; distinct = distinct specifications"
    items = shapes(t, seed())
    items.sort(key=lambda it: -(it["nsamples"] * 10 + len(it["spec"]["cps"])))     # long harnesses first
    e3.run_e3(chk, items, build, replay_module="checks.c11", chunk=1)
    chk.finish()


if __name__ == "__main__":
    main()
