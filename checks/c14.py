"""C14 -- no legal value is starved: inferred value ranges over-approximate the solutions (E1 + bound map, E3 propagator steps)."""
from vf.common import Check, assert_repo_import, tier, seed
from vf import gen, e1run, hooks

KINDS = ("bound_excludes", "over_constrained", "spurious_failure", "other_exception")


def main():
    assert_repo_import()
    chk = Check("C14", "translation_validation",
                explanation="for every program and every random field f, the value domain D_f that the call actually handed to the swizzler (or "
                            "drew an unconstrained field from) is taken from the real run, and z3 decides, over ALL values of the random fields, "
                            "that Ref /\\ x_f not in D_f is unsatisfiable - i.e. every value f takes in some solution of the reference constraints "
                            "lies in the inferred range; in addition the asserted hard formula must not exclude reference solutions (Q2)",
                functions=["vsc.visitors.variable_bound_visitor.VariableBoundVisitor", "vsc.visitors.is_nonrand_expr_visitor", "vsc.model.variable_bound_*_propagator",
                           "vsc.model.variable_bound_model / scalar / enum", "vsc.model.rangelist_model", "vsc.model.solvegroup_swizzler_partsel.swizzle",
                           "vsc.model.randomizer.Randomizer.randomize (unconstrained fields)"])
    chk.assume(*e1run.E1_ASSUMPTIONS)
    chk.assume("the domain is read at the moment SolveGroupSwizzlerPartsel.swizzle() is entered for the rand set (runtime wrapper), and for "
               "unconstrained fields when Randomizer.randomize() starts; domain bounds outside the declared type are clamped to the type")
    t = tier()
    chk.bound("relational operators x {field vs non-random field / sum / difference / product / literal in and out of range / other random field / "
              "mixed random+non-random expression / signed vs unsigned}, in with overlapping/adjacent/unordered/empty/field-bounded ranges, chains, "
              "constraints under if/implies/or, disabled blocks, enum fields, previous values {0,max,min,mid} left in the random fields; "
              "non-random values from 4 (quick) / 6 (thorough) boundary assignments")
    specs = gen.c14_programs(t, seed())
    chk.extra["rule"] = "one evaluation = one call with every random field's inferred domain decided against the reference; distinct = distinct (program, call)"
    e1run.run_specs(chk, specs, KINDS, opts={"hooks": [hooks.bounds_hook]})
    # the drawn target must be reachable: for every target t of a domain the real create_rand_domain_constraint /
    # _build_swizzle_constraints path yields constraints that force f == t inside the domain (otherwise the remaining
    # freedom is resolved by the solver's default model and some values are never produced)
    from checks.c20 import _kernel, kernel_cfgs
    from vf.common import parmap
    cfgs = kernel_cfgs(t)
    for (st, r), cfg in zip(parmap(_kernel, cfgs), cfgs):
        if st != "ok":
            chk.harness_error("kernel worker %s: %s" % (st, str(r)[:300]))
            continue
        chk.count("kernel%s" % (cfg,))
        chk.q(r["verdict"] if r["verdict"] in ("unsat", "sat") else "unknown")
        if r["verdict"] == "sat":
            chk.violation({"kind": "swizzle_target", "signed": cfg[1]}, "width %d %s domain [%d,%d]: the randomising constraints for a drawn target do not "
                          "determine the field, the rest is left to the solver's default model (values can be starved): %s" % (
                              cfg[0], "signed" if cfg[1] else "unsigned", cfg[2], cfg[3], r["model"]), {"engine": "kernel", "cfg": cfg, "model": r["model"]})
        elif r["verdict"] != "unsat":
            chk.note_inconclusive("kernel %s: %s" % (cfg, r["verdict"]))
    chk.finish()


if __name__ == "__main__":
    main()
