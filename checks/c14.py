"""C14 -- no legal value is starved: inferred value ranges over-approximate the solutions (E1 + bound map, E3 propagator steps)."""
from vf.common import Check, assert_repo_import, tier, seed
from vf import gen, e1run, hooks

KINDS = ("bound_excludes", "over_constrained", "spurious_failure", "other_exception")


def rng_build(item):
    """RandState.randint(low, high) hands the request to the generator unchanged and returns its draw unchanged: every value
    of [low, high] stays reachable with the generator's own (uniform) law.  low/high symbolic up to 2^(bits) apart."""
    from vf import symex, e3
    from vf.symex import And
    import vsc.model.rand_state as RS
    bits = item["bits"]
    swap = item["swap"]

    def h(sym):
        lim = 1 << bits
        low = sym.int("low", -lim, lim)
        span = sym.int("span", 0 if not swap else 1, lim)
        high = low + span
        d = sym.int("draw", -2 * lim - 2, 2 * lim + 2)
        calls = []

        class Gen(object):
            def randint(self, a, b):
                calls.append(("randint", a, b))
                sym.assume(And(d >= a, d <= b))
                return d

            def random(self):
                calls.append(("random",))
                raise symex.Unsupported("float draw")

            def getrandbits(self, k):
                calls.append(("getrandbits", k))
                raise symex.Unsupported("getrandbits")
        rs = RS.RandState.__new__(RS.RandState)
        rs.rng = Gen()
        try:
            r = rs.randint(high, low) if swap else rs.randint(low, high)
        except symex.Unsupported:
            r = None
        sym.check("one_integer_draw_over_the_requested_range", len(calls) == 1 and calls[0][0] == "randint")
        if r is not None and len(calls) == 1 and calls[0][0] == "randint":
            sym.check("range_passed_unchanged", And(calls[0][1] == low, calls[0][2] == high))
            sym.check("draw_returned_unchanged", r == d)
    return dict(harness=h, theory="int", sig={"harness": "randstate_randint", "bits": bits}, standins=lambda: e3.pyvsc_standins([RS]), max_paths=200,
                max_seconds=60, desc="RandState.randint span <= 2^%d%s" % (bits, " (bounds swapped)" if swap else ""))


def main():
    assert_repo_import()
    chk = Check("C14", "translation_validation",
                explanation="for every program and every random field f, the value domain D_f that the call actually handed to the swizzler (or "
                            "drew an unconstrained field from) is taken from the real run, and z3 decides, over ALL values of the random fields, "
                            "that Ref /\\ x_f not in D_f is unsatisfiable - i.e. every value f takes in some solution of the reference constraints "
                            "lies in the inferred range; in addition the asserted hard formula must not exclude reference solutions (Q2); the "
                            "randomising constraints built for a drawn target force the field to it (kernel, symbolic target, single- and multi-range "
                            "domains); RandState.randint passes the requested range to the generator and returns its draw unchanged (E3, symbolic "
                            "bounds up to 2^128 apart)",
                functions=["vsc.visitors.variable_bound_visitor.VariableBoundVisitor", "vsc.visitors.is_nonrand_expr_visitor", "vsc.model.variable_bound_*_propagator",
                           "vsc.model.variable_bound_model / scalar / enum", "vsc.model.rangelist_model", "vsc.model.solvegroup_swizzler_partsel.swizzle",
                           "vsc.model.randomizer.Randomizer.randomize (unconstrained fields)"])
    chk.assume(*e1run.E1_ASSUMPTIONS)
    chk.assume("the domain is read at the moment SolveGroupSwizzlerPartsel.swizzle() is entered for the rand set (runtime wrapper), and for "
               "unconstrained fields when Randomizer.randomize() starts; domain bounds outside the declared type are clamped to the type")
    t = tier()
    chk.bound("relational operators x {field vs non-random field / sum / difference / product / literal in and out of range / other random field / "
              "mixed random+non-random expression / signed vs unsigned}, in with overlapping/adjacent/unordered/empty/field-bounded ranges, chains, "
              "constraints under if/implies/or, disabled blocks, enum fields, previous values {0,max,min,mid} left in the random fields; "
              "non-random values from 4 (quick) / 6 (thorough) boundary assignments")
    specs = gen.c14_programs(t, seed())
    chk.extra["rule"] = "one evaluation = one call with every random field's inferred domain decided against the reference; distinct = distinct (program, call)"
    e1run.run_specs(chk, specs, KINDS, opts={"hooks": [hooks.bounds_hook]})
    # the drawn target must be reachable: for every target t of a domain the real create_rand_domain_constraint /
    # _build_swizzle_constraints path yields constraints that force f == t inside the domain (otherwise the remaining
    # freedom is resolved by the solver's default model and some values are never produced)
    from checks.c20 import _kernel, kernel_cfgs
    from vf.common import parmap
    cfgs = kernel_cfgs(t)
    for (st, r), cfg in zip(parmap(_kernel, cfgs), cfgs):
        if st != "ok":
            chk.harness_error("kernel worker %s: %s" % (st, str(r)[:300]))
            continue
        chk.count("kernel%s" % (cfg,))
        chk.q(r["verdict"] if r["verdict"] in ("unsat", "sat") else "unknown")
        if r["verdict"] == "sat":
            if r.get("reproduced") is not True:
                chk.harness_error("kernel counterexample did not replay on the real Boolector: %s" % (r,))
                continue
            dom = [[cfg[2], cfg[3]]] if not isinstance(cfg[2], list) else cfg[2]
            rejects = r.get("t") == r.get("f")
            chk.violation({"kind": "swizzle_target", "signed": cfg[1], "rejects_target": rejects},
                          "width %d %s domain %s (range %s picked, target %s): the randomising constraints %s (replayed with the real Boolector), so the "
                          "field is left to the solver's default model and values are starved" % (
                              cfg[0], "signed" if cfg[1] else "unsigned", dom, cfg[3] if len(dom) > 1 else 0, r.get("t"),
                              "cannot be satisfied by the target itself and are dropped" if rejects else "still admit f == %s" % (r.get("f"),)),
                          {"engine": "kernel", "cfg": cfg, "model": r["model"]})
        elif r["verdict"] != "unsat":
            chk.note_inconclusive("kernel %s: %s" % (cfg, r["verdict"]))
    # the pool the (at most four) steered fields of a rand set are drawn from is the whole set (concrete structural check on the real
    # swizzle_field_l with an RNG stub that returns the last index; sizes 1..12)
    from vf import swzkernel as K
    for n in range(1, 13):
        ok, info = K.swizzle_pool(n)
        chk.count("swizzle_pool(%d)" % n)
        if not ok:
            chk.violation({"kind": "swizzle_pool"}, "with %d random fields in a rand set the fields that get randomising targets are not drawn from the whole set: %s" % (n, info),
                          {"engine": "script", "source": "import sys; sys.path.insert(0, '/verif'); from vf import swzkernel as K; ok, info = K.swizzle_pool(%d); print(info); sys.exit(0 if ok else 1)" % n})
    # a dist under a condition over a random field steers its field only while the condition holds; otherwise the field is randomised
    # over its domain (all domain targets t, symbolic) -- driven through the real per-call pipeline on objects built with the public API
    for kw in [dict(w=w_, else_branch=eb, implies=im) for w_ in ((3, 4, 8) if t == "quick" else (2, 3, 4, 5, 8, 12, 16)) for eb, im in ((False, False), (True, False), (False, True))]:
        r, detail, nn, cex = K.guarded_dist_swizzle(**kw)
        chk.count("guarded_dist%s" % (sorted(kw.items()),))
        chk.q(r if r in ("sat", "unsat") else "unknown")
        if r == "sat":
            if K.replay_guarded_dist(kw["w"], kw["else_branch"], kw["implies"], cex) is not True:
                chk.harness_error("guarded dist counterexample did not replay on the real Boolector: %s %s" % (kw, detail))
                continue
            chk.violation({"kind": "guarded_dist", "obligation": cex[0]},
                          "dist under a condition on a random field (%s): %s -- with the condition false (mode=%d) the randomising constraints still admit/force a=%d "
                          "for the domain target %d (replayed with the real Boolector): values outside the dist are starved while the dist does not apply" % (
                              kw, cex[0], cex[3], cex[2], cex[1]),
                          {"engine": "script", "source": "import sys; sys.path.insert(0, '/verif'); from vf import swzkernel as K; r = K.guarded_dist_swizzle(**%r); print(r); sys.exit(0 if r[0] == 'unsat' else 1)" % (kw,)})
        elif r != "unsat":
            chk.note_inconclusive("guarded dist kernel %s: %s %s" % (kw, r, detail))
    # the RNG wrapper the domains are drawn through
    from vf import e3
    e3.run_e3(chk, [dict(bits=b, swap=sw) for b in (8, 31, 32, 33, 53, 54, 64, 65, 128) for sw in (False, True)], rng_build, replay_module="checks.c14:rng_build", chunk=1)
    chk.finish()


if __name__ == "__main__":
    main()
