"""C14 -- no legal value is starved: inferred value ranges over-approximate the solutions (E1 + bound map, E3 propagator steps)."""
from vf.common import Check, assert_repo_import, tier, seed
from vf import gen, e1run, hooks

KINDS = ("bound_excludes", "over_constrained", "spurious_failure", "other_exception")


def main():
    assert_repo_import()
    chk = Check("C14", "translation_validation",
                explanation="for every program and every random field f, the value domain D_f that the call actually handed to the swizzler (or "
                            "drew an unconstrained field from) is taken from the real run, and z3 decides, over ALL values of the random fields, "
                            "that Ref /\\ x_f not in D_f is unsatisfiable - i.e. every value f takes in some solution of the reference constraints "
                            "lies in the inferred range; in addition the asserted hard formula must not exclude reference solutions (Q2)",
                functions=["vsc.visitors.variable_bound_visitor.VariableBoundVisitor", "vsc.visitors.is_nonrand_expr_visitor", "vsc.model.variable_bound_*_propagator",
                           "vsc.model.variable_bound_model / scalar / enum", "vsc.model.rangelist_model", "vsc.model.solvegroup_swizzler_partsel.swizzle",
                           "vsc.model.randomizer.Randomizer.randomize (unconstrained fields)"])
    chk.assume(*e1run.E1_ASSUMPTIONS)
    chk.assume("the domain is read at the moment SolveGroupSwizzlerPartsel.swizzle() is entered for the rand set (runtime wrapper), and for "
               "unconstrained fields when Randomizer.randomize() starts; domain bounds outside the declared type are clamped to the type")
    t = tier()
    chk.bound("relational operators x {field vs non-random field / sum / difference / product / literal in and out of range / other random field / "
              "mixed random+non-random expression / signed vs unsigned}, in with overlapping/adjacent/unordered/empty/field-bounded ranges, chains, "
              "constraints under if/implies/or, disabled blocks, enum fields, previous values {0,max,min,mid} left in the random fields; "
              "non-random values from 4 (quick) / 6 (thorough) boundary assignments")
    specs = gen.c14_programs(t, seed())
    chk.extra["rule"] = "one evaluation = one call with every random field's inferred domain decided against the reference; distinct = distinct (program, call)"
    e1run.run_specs(chk, specs, KINDS, opts={"hooks": [hooks.bounds_hook]})
    chk.finish()


if __name__ == "__main__":
    main()
