#!/bin/bash
# Build (idempotently) the overlay venv the checks run in: /venv's packages (pyvsc editable from /repo/src,
# pyboolector, pyucis) + z3-solver / crosshair-tool from the offline wheelhouse.  No network.
set -e
V=/verif/.venv
if [ -x $V/bin/python ] && $V/bin/python -c "import z3, vsc" >/dev/null 2>&1; then exit 0; fi
(
  flock 9
  if [ -x $V/bin/python ] && $V/bin/python -c "import z3, vsc" >/dev/null 2>&1; then exit 0; fi
  rm -rf $V
  /venv/bin/python -m venv $V
  SP=$($V/bin/python -c "import sysconfig; print(sysconfig.get_paths()['purelib'])")
  echo "import site; site.addsitedir('/venv/lib/python3.12/site-packages')" > $SP/_overlay.pth
  PIP_NO_INDEX=1 $V/bin/pip install -q --no-index --find-links /opt/veriftools/wheels z3-solver crosshair-tool >/dev/null 2>&1 || \
  PIP_NO_INDEX=1 $V/bin/pip install -q --no-index --find-links /opt/veriftools/wheels z3-solver
  $V/bin/python -c "import z3, vsc; assert vsc.__file__.startswith('/repo/src'), vsc.__file__"
) 9>/tmp/.verif_venv.lock
