"""Replay a counterexample file written by a check against the real code in /repo (no mirror, no stand-ins).
Exit 1 if the violation reproduces, 0 if it does not."""
import sys, json, importlib


def main():
    path = sys.argv[1]
    d = json.load(open(path))
    r = d["replay"]
    print("property:", d["property"]); print("what:", d["what"])
    eng = r.get("engine")
    if eng == "E3":
        modname, _, fn = r["module"].partition(":")
        mod = importlib.import_module(modname)
        from vf import e3
        build = {"": "build", "kernel": "kernel_build", "sympos": "sympos_build"}.get(fn, fn if hasattr(mod, fn) else "build")
        failed, exc = e3.replay_e3(getattr(mod, build), r["item"], r["inputs"])
        print("inputs:", r["inputs"], "-> failed obligations:", failed, "exception:", repr(exc))
        sys.exit(1 if (failed or exc is not None) else 0)
    if eng == "E1":
        from vf import e1
        ok, info = e1.replay(r)
        print(info)
        sys.exit(0 if ok else 1)
    if eng == "kernel":
        from vf import swzkernel as K
        cfg = r["cfg"]
        if len(cfg) == 4 and isinstance(cfg[2], list):
            v, m, n, dw = K.swizzle_forces_target(cfg[0], cfg[1], 0, 0, ranges=cfg[2], pick=cfg[3])
        elif len(cfg) == 4:
            v, m, n, dw = K.swizzle_forces_target(*cfg)
        else:
            v, m = K.dist_target_equals(*cfg)
        print("configuration", cfg, "->", v, m)
        sys.exit(1 if v == "sat" else 0)
    if eng == "script":
        import subprocess
        p = subprocess.run([sys.executable, "-c", r["source"]], capture_output=True, text=True)
        print(p.stdout[-3000:], p.stderr[-3000:])
        sys.exit(1 if p.returncode != 0 else 0)
    print("replay kind %r: re-run the check to reproduce" % eng)
    sys.exit(2)


if __name__ == "__main__":
    main()
