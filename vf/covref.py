"""Reference model of coverpoint bins (written from the property text of C10/C11, independent of vsc.model) and a
builder that turns a JSON-able covergroup spec into a real @vsc.covergroup instance.

coverpoint spec: {"name": str, "type": ["u"|"s", w] | ["enum", EnumName], "bins": [[name, "bin", items] |
  [name, "array", nbins|None, items]] | None (auto), "ignore": [[name, items]], "illegal": [[name, items]],
  "auto_bin_max": int|None, "iff": None|"field", "at_least": int|None, "weight": int|None}
items: list of int | [lo, hi]
"""
import enum


def expand(items):
    out = set()
    for it in items:
        if isinstance(it, (list, tuple)):
            out.update(range(it[0], it[1] + 1))
        else:
            out.add(it)
    return out


def runs(vals):
    vals = sorted(vals)
    out = []
    for x in vals:
        if out and out[-1][1] + 1 == x:
            out[-1][1] = x
        else:
            out.append([x, x])
    return out


def partition(vals, nbins):
    vals = sorted(vals)
    if not vals:
        return []
    if nbins is None or nbins >= len(vals):
        return [[v] for v in vals]
    per = len(vals) // nbins
    out = [vals[i * per:(i + 1) * per] for i in range(nbins)]
    out[-1].extend(vals[nbins * per:])
    return out


def partition_ranges(rngs, nbins):
    """same as partition() but on a list of disjoint ascending [lo,hi] ranges that may be huge (auto-bins of wide
    types): returns list of bins, each a list of [lo,hi] ranges"""
    total = sum(h - l + 1 for l, h in rngs)
    if total == 0:
        return []
    if nbins is None or nbins >= total:
        return [[[v, v]] for l, h in rngs for v in range(l, h + 1)]
    per = total // nbins
    out = []
    cur = []
    need = per
    ri = 0
    rngs = [list(r) for r in rngs]
    while len(out) < nbins - 1:
        l, h = rngs[ri]
        n = h - l + 1
        if n <= need:
            cur.append([l, h]); need -= n; ri += 1
        else:
            cur.append([l, l + need - 1]); rngs[ri][0] = l + need; need = 0
        if need == 0:
            out.append(cur); cur = []; need = per
    last = []
    while ri < len(rngs):
        last.append(rngs[ri]); ri += 1
    out.append(last)
    return out


def type_range(t):
    if t[0] == "u":
        return 0, (1 << t[1]) - 1
    return -(1 << (t[1] - 1)), (1 << (t[1] - 1)) - 1


def ref_bins(cp, enums=None):
    """-> dict(bins=[(name_hint, ranges)], ignore=[ranges], illegal=[ranges]) ; ranges = list of [lo,hi]"""
    excl = set()
    for n, items in cp.get("ignore") or []:
        excl |= expand(items)
    for n, items in cp.get("illegal") or []:
        excl |= expand(items)
    bins = []
    if cp.get("bins"):
        for b in cp["bins"]:
            if b[1] == "bin":
                s = expand(b[2]) - excl
                if s:
                    bins.append((b[0], runs(s)))
            elif b[1] == "wild":
                # single wildcard bin: (value, mask) pairs; matching values within the coverpoint's type
                lo, hi = type_range(cp["type"])
                s = set(v for v in range(lo, hi + 1) if any((v & m) == (val & m) for val, m in b[2]))
                bins.append((b[0], runs(s)))
            else:
                vals = expand(b[3]) - excl
                for i, part in enumerate(partition(vals, b[2])):
                    bins.append(("%s[%d]" % (b[0], i), runs(part)))
    elif cp["type"][0] == "enum":
        for m, v in sorted(enums[cp["type"][1]], key=lambda mv: mv[1]):
            if v not in excl:
                bins.append((m, [[v, v]]))
    else:
        lo, hi = type_range(cp["type"])
        rngs = [[lo, hi]]
        for x in sorted(excl):
            nr = []
            for l, h in rngs:
                if l <= x <= h:
                    if l <= x - 1:
                        nr.append([l, x - 1])
                    if x + 1 <= h:
                        nr.append([x + 1, h])
                else:
                    nr.append([l, h])
            rngs = nr
        abm = cp.get("auto_bin_max") or 64
        for i, part in enumerate(partition_ranges(rngs, abm)):
            bins.append(("%s[%d]" % (cp["name"], i), part))
    ign = [runs(expand(items)) for n, items in cp.get("ignore") or []]
    ill = [runs(expand(items)) for n, items in cp.get("illegal") or []]
    return {"bins": bins, "ignore": ign, "illegal": ill}


# ------------------------------------------------------------------------------------------ real covergroup
def _items_py(items):
    return [tuple(it) if isinstance(it, (list, tuple)) else it for it in items]


def mk_enum_classes(enums):
    out = {}
    for en, members in (enums or {}).items():
        out[en] = enum.IntEnum(en, [(m, v) for m, v in members])
    return out


def build_cg(vsc, spec, enum_classes=None, name="CG", ctor_arg=None):
    """spec: {"cps": [cp...], "crosses": [{"name", "cps": [names], "iff": None|"field"}], "options": {...}}
    Every coverpoint samples its own field '<name>_v'; iff fields are '<name>_iff' (bit_t(1)).
    Returns (instance, sample_order) where sample_order lists the with_sample field names."""
    from vf import e3
    enum_classes = enum_classes or {}
    order = []
    fields = {}
    for cp in spec["cps"]:
        t = cp["type"]
        if t[0] == "enum":
            fields[cp["name"] + "_v"] = ("enum", t[1])
        else:
            fields[cp["name"] + "_v"] = (t[0], t[1])
        order.append(cp["name"] + "_v")
        if cp.get("iff"):
            fields[cp["name"] + "_iff"] = ("u", cp.get("iff_width") or 1)
            order.append(cp["name"] + "_iff")
    for cr in spec.get("crosses", []):
        if cr.get("iff"):
            fields[cr["name"] + "_iff"] = ("u", 1)
            order.append(cr["name"] + "_iff")

    def init(self):
        params = {}
        for fn in order:
            k = fields[fn]
            if k[0] == "enum":
                params[fn] = vsc.enum_t(enum_classes[k[1]])
            elif k[0] == "u":
                params[fn] = vsc.bit_t(k[1])
            else:
                params[fn] = vsc.int_t(k[1])
        self.with_sample(params)
        for k, v in (spec.get("options") or {}).items():
            setattr(self.options, k, v)
        cps = {}
        shared = {}
        for cp in spec["cps"]:
            kw = {}
            if cp.get("share_bins_of"):
                # the very same bin specification objects as another coverpoint of this covergroup
                kw["bins"] = shared[cp["share_bins_of"]]
            elif cp.get("bins"):
                bd = {}
                for b in cp["bins"]:
                    if b[1] == "bin":
                        bd[b[0]] = vsc.bin(*_items_py(b[2]))
                    elif b[1] == "wild":
                        bd[b[0]] = vsc.wildcard_bin(*[tuple(p) for p in b[2]])
                    else:
                        bd[b[0]] = vsc.bin_array([] if b[2] is None else [b[2]], *_items_py(b[3]))
                kw["bins"] = bd
                shared[cp["name"]] = bd
            if cp.get("ignore"):
                kw["ignore_bins"] = {n: vsc.bin(*_items_py(items)) for n, items in cp["ignore"]}
            if cp.get("illegal"):
                kw["illegal_bins"] = {n: vsc.bin(*_items_py(items)) for n, items in cp["illegal"]}
            opts = {}
            for o in ("auto_bin_max", "at_least", "weight"):
                if cp.get(o) is not None:
                    opts[o] = cp[o]
            if opts:
                kw["options"] = opts
            if cp.get("iff"):
                kw["iff"] = getattr(self, cp["name"] + "_iff")
            c = vsc.coverpoint(getattr(self, cp["name"] + "_v"), **kw)
            cps[cp["name"]] = c
            setattr(self, cp["name"], c)
        for cr in spec.get("crosses", []):
            kw = {}
            if cr.get("iff"):
                kw["iff"] = getattr(self, cr["name"] + "_iff")
            opts = {}
            for o in ("at_least", "weight"):
                if cr.get(o) is not None:
                    opts[o] = cr[o]
            if opts:
                kw["options"] = opts
            setattr(self, cr["name"], vsc.cross([cps[n] for n in cr["cps"]], **kw))

    T = type(name, (object,), {"__init__": init})
    CG = vsc.covergroup(T)
    return CG(), order
