"""Kernel obligations on the real swizzle-constraint builders with a *symbolic* target value (pure z3 stand-in for the
Boolector API: only the calls these builders make).  Decides, for all targets t and all field values f of the domain:
    constraints(f, t) /\\ f in D  ==>  f == t            (C20 O2, C15 c)
"""
import z3


class PNode(object):
    def __init__(self, z):
        self.z = z

    @property
    def width(self):
        return self.z.size() if not z3.is_bool(self.z) else 1


def _bv(n):
    return z3.If(n.z, z3.BitVecVal(1, 1), z3.BitVecVal(0, 1)) if z3.is_bool(n.z) else n.z


class PureBtor(object):
    """the subset of pyboolector.Boolector used by ExprBinModel/ExprPartselectModel/ExprLiteralModel/ExprFieldRefModel"""
    def BitVecSort(self, w):
        return ("s", int(w))

    def Var(self, sort, symbol=None):
        return PNode(z3.BitVec(symbol or "v", sort[1]))

    def Const(self, c, w=1):
        from vf.symex import SInt
        if isinstance(c, SInt):
            if z3.is_int(c.z):
                return PNode(z3.Int2BV(c.z, int(w)))
            return PNode(z3.Extract(int(w) - 1, 0, c.z))
        return PNode(z3.BitVecVal(int(c), int(w)))

    def Slice(self, a, u, l):
        return PNode(z3.Extract(int(u), int(l), _bv(a)))

    def Eq(self, a, b):
        return PNode(_bv(a) == _bv(b))

    def Uext(self, a, n):
        return PNode(z3.ZeroExt(int(n), _bv(a)))

    def Sext(self, a, n):
        return PNode(z3.SignExt(int(n), _bv(a)))

    # Boolean connectives over 1-bit terms (guards of conditional dist constraints)
    def Not(self, a):
        return PNode(~_bv(a))

    def Or(self, a, b):
        return PNode(_bv(a) | _bv(b))

    def And(self, a, b):
        return PNode(_bv(a) & _bv(b))

    def Ne(self, a, b):
        return PNode(_bv(a) != _bv(b))

    def Ult(self, a, b):
        return PNode(z3.ULT(_bv(a), _bv(b)))

    def Ulte(self, a, b):
        return PNode(z3.ULE(_bv(a), _bv(b)))

    def Redor(self, a):
        x = _bv(a)
        return PNode(x != z3.BitVecVal(0, x.size()))


def swizzle_forces_target(w, signed, lo, hi, timeout_ms=30000, ranges=None, pick=0):
    """(verdict, model) for one (width, signedness, domain [lo,hi]) configuration; verdict 'unsat' = obligation holds.
    ranges/pick: multi-range domain (ascending disjoint [lo,hi] list) and the index of the range the RNG stub selects;
    the premise is then f in the union of the ranges, t in the picked range"""
    from vf import symex, e3
    from vsc.model.field_scalar_model import FieldScalarModel
    from vsc.model.solvegroup_swizzler_partsel import SolveGroupSwizzlerPartsel
    import vsc.model.solvegroup_swizzler_partsel as SP
    f = FieldScalarModel("f", w, signed, True)
    f.is_used_rand = True
    btor = PureBtor()
    f.var = btor.Var(btor.BitVecSort(w), "f")
    ctx = symex.Ctx("bv", [])
    symex._cur = ctx
    try:
        t = symex.SInt(z3.BitVec("t", symex.W), 70)
        class RS(object):            # RNG stub: the drawn target is an arbitrary value of the requested range
            def randint(self, a, b):
                if ranges is not None and (a, b) == (0, len(ranges) - 1) and not seen.get("picked"):
                    seen["picked"] = True
                    return pick
                assert (a, b) == (lo, hi), (a, b, lo, hi)
                return t

        class Dom(object):
            range_l = [[lo, hi]] if ranges is None else [list(r) for r in ranges]

        class Bound(object):
            domain = Dom()
        seen = {}
        if ranges is not None:
            lo, hi = ranges[pick]
        swz = SolveGroupSwizzlerPartsel(RS(), None)
        ob = swz._build_swizzle_constraints

        def spy(fm, bit_pattern, d_width):
            seen["d_width"] = d_width
            return ob(fm, bit_pattern, d_width)
        swz._build_swizzle_constraints = spy
        with e3.pyvsc_standins([SP]):
            exprs = swz.create_rand_domain_constraint(f, Bound())      # the real domain -> (d_width, pattern) -> constraints path
            nodes = [e.build(btor) for e in exprs]
        d_width = seen.get("d_width", -1)
    finally:
        symex._cur = None
    fz = f.var.z
    tz = z3.BitVec("t", symex.W)
    conj = z3.And(*[n.z if z3.is_bool(n.z) else (n.z == 1) for n in nodes]) if nodes else z3.BoolVal(True)
    fint = z3.SignExt(symex.W - w, fz) if signed else z3.ZeroExt(symex.W - w, fz)
    L, H = z3.BitVecVal(lo, symex.W), z3.BitVecVal(hi, symex.W)
    s = z3.Solver()
    s.set("timeout", timeout_ms)
    if ranges is None:
        indom = z3.And(fint >= L, fint <= H)
    else:
        indom = z3.Or(*[z3.And(fint >= z3.BitVecVal(a, symex.W), fint <= z3.BitVecVal(b, symex.W)) for a, b in ranges])
    s.add(tz >= L, tz <= H, indom, conj, fint != tz)
    r = s.check()
    if r == z3.unsat:
        # second obligation: the constraints ADMIT the drawn target (otherwise they are dropped as unsatisfiable and the field is
        # left to the solver's default model: 'forces f == t' would hold vacuously)
        s2 = z3.Solver()
        s2.set("timeout", timeout_ms)
        s2.add(tz >= L, tz <= H, fint == tz, z3.Not(conj))
        r2 = s2.check()
        if r2 != z3.unsat:
            return ("sat" if r2 == z3.sat else str(r2)), (s2.model() if r2 == z3.sat else None), len(nodes), d_width
    return str(r), (s.model() if r == z3.sat else None), len(nodes), d_width


def replay_swizzle_concrete(w, signed, ranges, pick, t, fval):
    """replay of a kernel counterexample on the real code with the real Boolector: with the RNG stub returning the concrete
    range index and target t, the constraints built by create_rand_domain_constraint still admit f == fval (!= t), or -- for
    fval == t -- reject the target itself"""
    import pyboolector
    from vsc.model.field_scalar_model import FieldScalarModel
    from vsc.model.solvegroup_swizzler_partsel import SolveGroupSwizzlerPartsel
    btor = pyboolector.Boolector()
    import vsc.model.randomizer as RZ
    btor.Set_opt(RZ.BTOR_OPT_INCREMENTAL, True)
    btor.Set_opt(RZ.BTOR_OPT_MODEL_GEN, True)
    f = FieldScalarModel("f", w, signed, True)
    f.is_used_rand = True
    f.build(btor)
    draws = ([pick] if len(ranges) > 1 else []) + [t]

    class RS(object):
        def randint(self, a, b):
            return draws.pop(0)

    class Dom(object):
        range_l = [list(r) for r in ranges]

    class Bound(object):
        domain = Dom()
    swz = SolveGroupSwizzlerPartsel(RS(), None)
    for e in swz.create_rand_domain_constraint(f, Bound()):
        btor.Assert(e.build(btor))
    btor.Assert(btor.Eq(f.var, btor.Const(fval & ((1 << w) - 1), w)))
    if fval == t:
        return btor.Sat() != btor.SAT          # 'rejects its own target' counterexample
    return btor.Sat() == btor.SAT


def dist_target_equals(w, signed, timeout_ms=30000):
    """the constraint the swizzler builds for a dist field with drawn value val is equivalent to f == val"""
    from vf import symex, e3
    from vsc.model.field_scalar_model import FieldScalarModel
    from vsc.model.expr_bin_model import ExprBinModel
    from vsc.model.expr_fieldref_model import ExprFieldRefModel
    from vsc.model.expr_literal_model import ExprLiteralModel
    from vsc.model.bin_expr_type import BinExprType
    f = FieldScalarModel("f", w, signed, True)
    btor = PureBtor()
    f.var = btor.Var(btor.BitVecSort(w), "f")
    ctx = symex.Ctx("bv", [])
    symex._cur = ctx
    try:
        val = symex.SInt(z3.BitVec("val", symex.W), 70)
        with e3.pyvsc_standins([]):
            e = ExprBinModel(ExprFieldRefModel(f), BinExprType.Eq, ExprLiteralModel(val, f.is_signed, f.width))
            n = e.build(btor)
    finally:
        symex._cur = None
    lo = -(1 << (w - 1)) if signed else 0
    hi = (1 << (w - 1)) - 1 if signed else (1 << w) - 1
    vz = z3.BitVec("val", symex.W)
    fint = z3.SignExt(symex.W - w, f.var.z) if signed else z3.ZeroExt(symex.W - w, f.var.z)
    s = z3.Solver()
    s.set("timeout", timeout_ms)
    nz = n.z if z3.is_bool(n.z) else (n.z == 1)
    s.add(vz >= z3.BitVecVal(lo, symex.W), vz <= z3.BitVecVal(hi, symex.W), nz != (fint == vz))
    r = s.check()
    return str(r), (s.model() if r == z3.sat else None)


def swizzle_pool(n):
    """the fields that receive randomising targets are drawn from ALL random fields handed to swizzle_field_l: the first draw asks
    for an index over the whole list and the field at the drawn index is the one that is swizzled (RNG stub returns the last index)"""
    from vsc.model.field_scalar_model import FieldScalarModel
    from vsc.model.solvegroup_swizzler_partsel import SolveGroupSwizzlerPartsel
    fields = []
    for i in range(n):
        f = FieldScalarModel("f%d" % i, 8, False, True)
        f.is_used_rand = True
        fields.append(f)
    asked = []

    class RS(object):
        def randint(self, a, b):
            asked.append((a, b))
            return b
    picked = []
    swz = SolveGroupSwizzlerPartsel(RS(), None)
    swz.swizzle_field = lambda f, rs, bound_m: picked.append(f) or None

    class FakeBtor(object):
        SAT = 1

        def Sat(self):
            return 1

        def Assume(self, n):
            pass

        def Assert(self, n):
            pass
    swz.swizzle_field_l(list(fields), None, {}, FakeBtor())
    ok = bool(asked) and asked[0] == (0, n - 1) and bool(picked) and picked[0] is fields[n - 1] and len(set(id(p) for p in picked)) == min(n, 4)
    return ok, {"asked": asked[:5], "picked": [p.name for p in picked]}


def _guarded_dist_nodes(w, else_branch, implies, btor, target, symbolic):
    """drive the real per-call pipeline on an object built through the public API; returns (nodes, field a, field mode)"""
    from vf import symex, e3
    import vsc
    from vsc.model.randomizer import Randomizer
    from vsc.model.rand_info_builder import RandInfoBuilder
    from vsc.visitors.variable_bound_visitor import VariableBoundVisitor
    from vsc.visitors.array_constraint_builder import ArrayConstraintBuilder
    from vsc.visitors.dist_constraint_builder import DistConstraintBuilder
    from vsc.visitors.constraint_override_rollback_visitor import ConstraintOverrideRollbackVisitor
    from vsc.model.solvegroup_swizzler_partsel import SolveGroupSwizzlerPartsel
    from vsc.model.rand_state import RandState
    import vsc.model.solvegroup_swizzler_partsel as SP
    import contextlib
    DV = GUARDED_DV

    @vsc.randobj
    class C(object):
        def __init__(self):
            self.mode = vsc.rand_bit_t(1)
            self.a = vsc.rand_bit_t(w)

        @vsc.constraint
        def c(self):
            if implies:
                with vsc.implies(self.mode == 1):
                    vsc.dist(self.a, [vsc.weight(DV[0], 1), vsc.weight(DV[1], 1)])
            elif else_branch:
                with vsc.if_then(self.mode == 0):
                    self.a < (1 << w)
                with vsc.else_then:
                    vsc.dist(self.a, [vsc.weight(DV[0], 1), vsc.weight(DV[1], 1)])
            else:
                with vsc.if_then(self.mode == 1):
                    vsc.dist(self.a, [vsc.weight(DV[0], 1), vsc.weight(DV[1], 1)])
    o = C()
    fm = o.get_model()
    fa = [f for f in fm.field_l if f.name == "a"][0]
    fmode = [f for f in fm.field_l if f.name == "mode"][0]
    randstate = RandState.mkFromSeed(20261002)      # the same dist entry is drawn in the symbolic run and in its replay
    constraint_l = []
    fm.set_used_rand(True, 0)
    try:
        fm.pre_randomize([])
        bounds_v = VariableBoundVisitor()
        bounds_v.process([fm], constraint_l, False)
        try:
            constraint_l.extend(ArrayConstraintBuilder.build(fm, bounds_v.bound_m))
            DistConstraintBuilder.build(randstate, fm)
            bounds_v.process([fm], constraint_l)
            ri = RandInfoBuilder.build([fm], constraint_l, Randomizer._rng)
            rs = [r for r in ri.randsets() if fa in r.all_fields()][0]
            for f in rs.all_fields():
                f.build(btor)

            class RS(object):
                rng = randstate.rng

                def randint(self, a, b):
                    if (a, b) == (0, (1 << w) - 1):
                        return target                      # the domain target: any value of the type
                    return randstate.randint(a, b)
            swz = SolveGroupSwizzlerPartsel(RS(), None)
            with (e3.pyvsc_standins([SP]) if symbolic else contextlib.nullcontext()):
                exprs = swz.swizzle_field(fa, rs, bounds_v.bound_m)
                nodes = [e.build(btor) for e in exprs]
        finally:
            ConstraintOverrideRollbackVisitor.rollback(fm)
    finally:
        fm.set_used_rand(False, 0)
        for f in (fa, fmode):
            if not symbolic:
                pass
    return nodes, fa, fmode


GUARDED_DV = (1, 2)


def guarded_dist_swizzle(w=4, else_branch=False, implies=False, timeout_ms=30000):
    """A dist under a condition over a RANDOM field (if_then / else_then / implies): the randomising constraints the real pipeline
    (RandInfoBuilder -> SolveGroupSwizzlerPartsel.swizzle_field) builds for the dist field must (i) force a dist value while the
    condition holds and (ii) force the domain target t -- symbolic, any value of the type -- while it does not, and admit it.
    The object is built through the public API; the per-call preamble of Randomizer._do_randomize is replayed on its model.
    returns (verdict, detail, n_nodes, cex): verdict 'unsat' = all obligations hold; cex = (obligation, t, a, mode)"""
    from vf import symex
    DV = GUARDED_DV
    btor = PureBtor()
    ctx = symex.Ctx("bv", [])
    symex._cur = ctx
    try:
        t = symex.SInt(z3.BitVec("t", symex.W), 70)
        nodes, fa, fmode = _guarded_dist_nodes(w, else_branch, implies, btor, t, True)
    finally:
        symex._cur = None
    conj = z3.And(*[n.z if z3.is_bool(n.z) else (n.z == 1) for n in nodes])
    az, mz = fa.var.z, fmode.var.z
    fa.var = None
    fmode.var = None
    tz = z3.BitVec("t", symex.W)
    aint = z3.ZeroExt(symex.W - w, az)
    g = (mz == 1)
    intype = z3.And(tz >= 0, tz <= (1 << w) - 1)
    indv = z3.Or(*[aint == v for v in DV])
    obligations = [("guard_holds_forces_dist_value", z3.And(intype, g, conj, z3.Not(indv))),
                   ("guard_fails_forces_domain_target", z3.And(intype, z3.Not(g), conj, aint != tz)),
                   ("guard_fails_admits_domain_target", z3.And(intype, z3.Not(g), aint == tz, z3.Not(conj)))]
    for nm, fml in obligations:
        s = z3.Solver()
        s.set("timeout", timeout_ms)
        s.add(fml)
        r = s.check()
        if r == z3.sat:
            m = s.model()
            ev = lambda x: m.eval(x, model_completion=True).as_long()
            return "sat", "%s: %s" % (nm, m), len(nodes), (nm, ev(tz), ev(az), ev(mz))
        if r != z3.unsat:
            return str(r), nm, len(nodes), None
    # vacuity: some value of a satisfies the conjunction while the guard holds
    s = z3.Solver()
    s.add(g, conj)
    if s.check() != z3.sat:
        return "vacuous", "no dist value is admitted while the guard holds", len(nodes), None
    return "unsat", None, len(nodes), None


def replay_guarded_dist(w, else_branch, implies, cex):
    """replay of a guarded-dist counterexample with the real Boolector: concrete domain target, the field and guard values of the
    model; True = the real constraints behave as the counterexample says"""
    import pyboolector
    import vsc.model.randomizer as RZ
    nm, t, aval, mval = cex
    btor = pyboolector.Boolector()
    btor.Set_opt(RZ.BTOR_OPT_INCREMENTAL, True)
    btor.Set_opt(RZ.BTOR_OPT_MODEL_GEN, True)
    nodes, fa, fmode = _guarded_dist_nodes(w, else_branch, implies, btor, t, False)
    try:
        btor.Assert(btor.Eq(fa.var, btor.Const(aval, w)))
        btor.Assert(btor.Eq(fmode.var, btor.Const(mval, 1)))
        if nm == "guard_fails_admits_domain_target":
            for n in nodes:
                btor.Assert(n)
            return btor.Sat() != btor.SAT
        for n in nodes:
            btor.Assert(n)
        return btor.Sat() == btor.SAT
    finally:
        fa.var = None
        fmode.var = None
