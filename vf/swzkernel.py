"""Kernel obligations on the real swizzle-constraint builders with a *symbolic* target value (pure z3 stand-in for the
Boolector API: only the calls these builders make).  Decides, for all targets t and all field values f of the domain:
    constraints(f, t) /\\ f in D  ==>  f == t            (C20 O2, C15 c)
"""
import z3


class PNode(object):
    def __init__(self, z):
        self.z = z

    @property
    def width(self):
        return self.z.size() if not z3.is_bool(self.z) else 1


def _bv(n):
    return z3.If(n.z, z3.BitVecVal(1, 1), z3.BitVecVal(0, 1)) if z3.is_bool(n.z) else n.z


class PureBtor(object):
    """the subset of pyboolector.Boolector used by ExprBinModel/ExprPartselectModel/ExprLiteralModel/ExprFieldRefModel"""
    def BitVecSort(self, w):
        return ("s", int(w))

    def Var(self, sort, symbol=None):
        return PNode(z3.BitVec(symbol or "v", sort[1]))

    def Const(self, c, w=1):
        from vf.symex import SInt
        if isinstance(c, SInt):
            if z3.is_int(c.z):
                return PNode(z3.Int2BV(c.z, int(w)))
            return PNode(z3.Extract(int(w) - 1, 0, c.z))
        return PNode(z3.BitVecVal(int(c), int(w)))

    def Slice(self, a, u, l):
        return PNode(z3.Extract(int(u), int(l), _bv(a)))

    def Eq(self, a, b):
        return PNode(_bv(a) == _bv(b))

    def Uext(self, a, n):
        return PNode(z3.ZeroExt(int(n), _bv(a)))

    def Sext(self, a, n):
        return PNode(z3.SignExt(int(n), _bv(a)))


def swizzle_forces_target(w, signed, lo, hi, timeout_ms=30000, ranges=None, pick=0):
    """(verdict, model) for one (width, signedness, domain [lo,hi]) configuration; verdict 'unsat' = obligation holds.
    ranges/pick: multi-range domain (ascending disjoint [lo,hi] list) and the index of the range the RNG stub selects;
    the premise is then f in the union of the ranges, t in the picked range"""
    from vf import symex, e3
    from vsc.model.field_scalar_model import FieldScalarModel
    from vsc.model.solvegroup_swizzler_partsel import SolveGroupSwizzlerPartsel
    import vsc.model.solvegroup_swizzler_partsel as SP
    f = FieldScalarModel("f", w, signed, True)
    f.is_used_rand = True
    btor = PureBtor()
    f.var = btor.Var(btor.BitVecSort(w), "f")
    ctx = symex.Ctx("bv", [])
    symex._cur = ctx
    try:
        t = symex.SInt(z3.BitVec("t", symex.W), 70)
        class RS(object):            # RNG stub: the drawn target is an arbitrary value of the requested range
            def randint(self, a, b):
                if ranges is not None and (a, b) == (0, len(ranges) - 1) and not seen.get("picked"):
                    seen["picked"] = True
                    return pick
                assert (a, b) == (lo, hi), (a, b, lo, hi)
                return t

        class Dom(object):
            range_l = [[lo, hi]] if ranges is None else [list(r) for r in ranges]

        class Bound(object):
            domain = Dom()
        seen = {}
        if ranges is not None:
            lo, hi = ranges[pick]
        swz = SolveGroupSwizzlerPartsel(RS(), None)
        ob = swz._build_swizzle_constraints

        def spy(fm, bit_pattern, d_width):
            seen["d_width"] = d_width
            return ob(fm, bit_pattern, d_width)
        swz._build_swizzle_constraints = spy
        with e3.pyvsc_standins([SP]):
            exprs = swz.create_rand_domain_constraint(f, Bound())      # the real domain -> (d_width, pattern) -> constraints path
            nodes = [e.build(btor) for e in exprs]
        d_width = seen.get("d_width", -1)
    finally:
        symex._cur = None
    fz = f.var.z
    tz = z3.BitVec("t", symex.W)
    conj = z3.And(*[n.z if z3.is_bool(n.z) else (n.z == 1) for n in nodes]) if nodes else z3.BoolVal(True)
    fint = z3.SignExt(symex.W - w, fz) if signed else z3.ZeroExt(symex.W - w, fz)
    L, H = z3.BitVecVal(lo, symex.W), z3.BitVecVal(hi, symex.W)
    s = z3.Solver()
    s.set("timeout", timeout_ms)
    if ranges is None:
        indom = z3.And(fint >= L, fint <= H)
    else:
        indom = z3.Or(*[z3.And(fint >= z3.BitVecVal(a, symex.W), fint <= z3.BitVecVal(b, symex.W)) for a, b in ranges])
    s.add(tz >= L, tz <= H, indom, conj, fint != tz)
    r = s.check()
    if r == z3.unsat:
        # second obligation: the constraints ADMIT the drawn target (otherwise they are dropped as unsatisfiable and the field is
        # left to the solver's default model: 'forces f == t' would hold vacuously)
        s2 = z3.Solver()
        s2.set("timeout", timeout_ms)
        s2.add(tz >= L, tz <= H, fint == tz, z3.Not(conj))
        r2 = s2.check()
        if r2 != z3.unsat:
            return ("sat" if r2 == z3.sat else str(r2)), (s2.model() if r2 == z3.sat else None), len(nodes), d_width
    return str(r), (s.model() if r == z3.sat else None), len(nodes), d_width


def replay_swizzle_concrete(w, signed, ranges, pick, t, fval):
    """replay of a kernel counterexample on the real code with the real Boolector: with the RNG stub returning the concrete
    range index and target t, the constraints built by create_rand_domain_constraint still admit f == fval (!= t), or -- for
    fval == t -- reject the target itself"""
    import pyboolector
    from vsc.model.field_scalar_model import FieldScalarModel
    from vsc.model.solvegroup_swizzler_partsel import SolveGroupSwizzlerPartsel
    btor = pyboolector.Boolector()
    import vsc.model.randomizer as RZ
    btor.Set_opt(RZ.BTOR_OPT_INCREMENTAL, True)
    btor.Set_opt(RZ.BTOR_OPT_MODEL_GEN, True)
    f = FieldScalarModel("f", w, signed, True)
    f.is_used_rand = True
    f.build(btor)
    draws = ([pick] if len(ranges) > 1 else []) + [t]

    class RS(object):
        def randint(self, a, b):
            return draws.pop(0)

    class Dom(object):
        range_l = [list(r) for r in ranges]

    class Bound(object):
        domain = Dom()
    swz = SolveGroupSwizzlerPartsel(RS(), None)
    for e in swz.create_rand_domain_constraint(f, Bound()):
        btor.Assert(e.build(btor))
    btor.Assert(btor.Eq(f.var, btor.Const(fval & ((1 << w) - 1), w)))
    if fval == t:
        return btor.Sat() != btor.SAT          # 'rejects its own target' counterexample
    return btor.Sat() == btor.SAT


def dist_target_equals(w, signed, timeout_ms=30000):
    """the constraint the swizzler builds for a dist field with drawn value val is equivalent to f == val"""
    from vf import symex, e3
    from vsc.model.field_scalar_model import FieldScalarModel
    from vsc.model.expr_bin_model import ExprBinModel
    from vsc.model.expr_fieldref_model import ExprFieldRefModel
    from vsc.model.expr_literal_model import ExprLiteralModel
    from vsc.model.bin_expr_type import BinExprType
    f = FieldScalarModel("f", w, signed, True)
    btor = PureBtor()
    f.var = btor.Var(btor.BitVecSort(w), "f")
    ctx = symex.Ctx("bv", [])
    symex._cur = ctx
    try:
        val = symex.SInt(z3.BitVec("val", symex.W), 70)
        with e3.pyvsc_standins([]):
            e = ExprBinModel(ExprFieldRefModel(f), BinExprType.Eq, ExprLiteralModel(val, f.is_signed, f.width))
            n = e.build(btor)
    finally:
        symex._cur = None
    lo = -(1 << (w - 1)) if signed else 0
    hi = (1 << (w - 1)) - 1 if signed else (1 << w) - 1
    vz = z3.BitVec("val", symex.W)
    fint = z3.SignExt(symex.W - w, f.var.z) if signed else z3.ZeroExt(symex.W - w, f.var.z)
    s = z3.Solver()
    s.set("timeout", timeout_ms)
    nz = n.z if z3.is_bool(n.z) else (n.z == 1)
    s.add(vz >= z3.BitVecVal(lo, symex.W), vz <= z3.BitVecVal(hi, symex.W), nz != (fint == vz))
    r = s.check()
    return str(r), (s.model() if r == z3.sat else None)


def swizzle_pool(n):
    """the fields that receive randomising targets are drawn from ALL random fields handed to swizzle_field_l: the first draw asks
    for an index over the whole list and the field at the drawn index is the one that is swizzled (RNG stub returns the last index)"""
    from vsc.model.field_scalar_model import FieldScalarModel
    from vsc.model.solvegroup_swizzler_partsel import SolveGroupSwizzlerPartsel
    fields = []
    for i in range(n):
        f = FieldScalarModel("f%d" % i, 8, False, True)
        f.is_used_rand = True
        fields.append(f)
    asked = []

    class RS(object):
        def randint(self, a, b):
            asked.append((a, b))
            return b
    picked = []
    swz = SolveGroupSwizzlerPartsel(RS(), None)
    swz.swizzle_field = lambda f, rs, bound_m: picked.append(f) or None

    class FakeBtor(object):
        SAT = 1

        def Sat(self):
            return 1

        def Assume(self, n):
            pass

        def Assert(self, n):
            pass
    swz.swizzle_field_l(list(fields), None, {}, FakeBtor())
    ok = bool(asked) and asked[0] == (0, n - 1) and bool(picked) and picked[0] is fields[n - 1] and len(set(id(p) for p in picked)) == min(n, 4)
    return ok, {"asked": asked[:5], "picked": [p.name for p in picked]}
