"""E1 -- btor-mirror: a drop-in for pyboolector.Boolector that forwards every call to a real Boolector instance and
mirrors it into z3.  Each node is a pair (real node, z3 term).  Every instance records a trace:
  ("var", node) ("assume", node) ("assert", node) ("sat", verdict, [assumed nodes], n_asserted) ("read", node)
Installed with  vsc.model.randomizer.Boolector = MirrorBoolector ; the pyvsc code that runs is unmodified.
"""
import time
import z3
import pyboolector
from pyboolector import Boolector as RealBoolector

_uid = [0]


class MNode(object):
    __slots__ = ("real", "z", "owner", "__weakref__")

    def __init__(self, real, z, owner):
        self.real = real
        self.z = z
        self.owner = owner

    @property
    def width(self):
        return self.real.width

    @property
    def assignment(self):
        a = self.real.assignment
        self.owner.trace.append(("read", self, a))
        return a

    @property
    def symbol(self):
        return self.real.symbol


def bv(n):
    z = n.z
    if z3.is_bool(z):
        z = z3.If(z, z3.BitVecVal(1, 1), z3.BitVecVal(0, 1))
    return z


def boolz(n):
    z = n.z
    if not z3.is_bool(z):
        if z.size() != 1:
            raise Exception("mirror: boolean use of a %d-bit node" % z.size())
        z = (z == z3.BitVecVal(1, 1))
    return z


class MirrorBoolector(object):
    SAT = RealBoolector.SAT
    UNSAT = RealBoolector.UNSAT
    UNKNOWN = RealBoolector.UNKNOWN
    instances = []          # every instance created since the last reset (kept alive: see close())
    validate = True         # cross-check each real Sat() verdict with z3 on the mirrored stack
    stats = {"sat_calls": 0, "verdict_checked": 0, "verdict_disagree": 0, "z3_unknown": 0, "model_checked": 0,
             "model_disagree": 0, "z3_s": 0.0}
    disagreements = []

    def __init__(self):
        self.real = RealBoolector()
        self.trace = []
        self.asserted = []
        self.assumed = []
        self.nodes = []
        self.nvars = 0
        self.id = len(MirrorBoolector.instances)
        self._solver = None
        MirrorBoolector.instances.append(self)

    @classmethod
    def reset(cls):
        """forget the instances of previous calls; they are kept referenced (never destroyed) because pyboolector
        segfaults if a solver is collected while nodes are alive"""
        cls._graveyard.extend(cls.instances)
        cls.instances = []

    _graveyard = []

    def _n(self, real, z):
        n = MNode(real, z, self)
        self.nodes.append(n)
        return n

    # ---- configuration / sorts / leaves
    def Set_opt(self, o, v):
        return self.real.Set_opt(o, v)

    def BitVecSort(self, w):
        return ("bvsort", int(w), self.real.BitVecSort(int(w)))

    def Var(self, sort, symbol=None):
        r = self.real.Var(sort[2]) if symbol is None else self.real.Var(sort[2], symbol)
        _uid[0] += 1
        z = z3.BitVec("mv%d" % _uid[0], sort[1])
        self.nvars += 1
        n = self._n(r, z)
        self.trace.append(("var", n))
        return n

    def Const(self, c, w=1):
        if isinstance(c, bool):
            r = self.real.Const(c)
            return self._n(r, z3.BitVecVal(1 if c else 0, r.width))
        if isinstance(c, str):
            r = self.real.Const(c)
            return self._n(r, z3.BitVecVal(int(c, 2), r.width))
        ci = int(c)
        wi = int(w)
        r = self.real.Const(ci, wi)
        return self._n(r, z3.BitVecVal(ci, r.width))

    # ---- binary operators
    def _bin(self, name, zf, a, b):
        r = getattr(self.real, name)(a.real, b.real)
        x, y = bv(a), bv(b)
        return self._n(r, zf(x, y))

    def Eq(self, a, b): return self._bin("Eq", lambda x, y: x == y, a, b)
    def Ne(self, a, b): return self._bin("Ne", lambda x, y: x != y, a, b)
    def Ult(self, a, b): return self._bin("Ult", z3.ULT, a, b)
    def Ulte(self, a, b): return self._bin("Ulte", z3.ULE, a, b)
    def Ugt(self, a, b): return self._bin("Ugt", z3.UGT, a, b)
    def Ugte(self, a, b): return self._bin("Ugte", z3.UGE, a, b)
    def Slt(self, a, b): return self._bin("Slt", lambda x, y: x < y, a, b)
    def Slte(self, a, b): return self._bin("Slte", lambda x, y: x <= y, a, b)
    def Sgt(self, a, b): return self._bin("Sgt", lambda x, y: x > y, a, b)
    def Sgte(self, a, b): return self._bin("Sgte", lambda x, y: x >= y, a, b)
    def Add(self, a, b): return self._bin("Add", lambda x, y: x + y, a, b)
    def Sub(self, a, b): return self._bin("Sub", lambda x, y: x - y, a, b)
    def Mul(self, a, b): return self._bin("Mul", lambda x, y: x * y, a, b)
    # Boolector (and SMT-LIB) division by zero: udiv -> all ones, urem -> dividend; z3 BV ops follow SMT-LIB too
    def Udiv(self, a, b): return self._bin("Udiv", z3.UDiv, a, b)
    def Urem(self, a, b): return self._bin("Urem", z3.URem, a, b)
    def Sdiv(self, a, b): return self._bin("Sdiv", lambda x, y: x / y, a, b)
    def Srem(self, a, b): return self._bin("Srem", z3.SRem, a, b)
    def Smod(self, a, b): return self._bin("Smod", lambda x, y: x % y, a, b)
    def Xor(self, a, b): return self._bin("Xor", lambda x, y: x ^ y, a, b)
    def Xnor(self, a, b): return self._bin("Xnor", lambda x, y: ~(x ^ y), a, b)
    def Nand(self, a, b): return self._bin("Nand", lambda x, y: ~(x & y), a, b)
    def Nor(self, a, b): return self._bin("Nor", lambda x, y: ~(x | y), a, b)
    def Concat(self, a, b): return self._bin("Concat", z3.Concat, a, b)
    def Iff(self, a, b):
        r = self.real.Iff(a.real, b.real)
        return self._n(r, boolz(a) == boolz(b))

    def _nary(self, name, zf, args):
        r = getattr(self.real, name)(*[a.real for a in args])
        z = bv(args[0])
        for a in args[1:]:
            z = zf(z, bv(a))
        return self._n(r, z)

    def And(self, *args): return self._nary("And", lambda x, y: x & y, args)
    def Or(self, *args): return self._nary("Or", lambda x, y: x | y, args)

    def _shift(self, name, zf, a, b):
        r = getattr(self.real, name)(a.real, b.real)
        x, y = bv(a), bv(b)
        if y.size() < x.size():
            y = z3.ZeroExt(x.size() - y.size(), y)
        return self._n(r, zf(x, y))

    def Sll(self, a, b): return self._shift("Sll", lambda x, y: x << y, a, b)
    def Srl(self, a, b): return self._shift("Srl", z3.LShR, a, b)
    def Sra(self, a, b): return self._shift("Sra", lambda x, y: x >> y, a, b)

    # ---- unary / structural
    def Not(self, a): return self._n(self.real.Not(a.real), ~bv(a))
    def Neg(self, a): return self._n(self.real.Neg(a.real), -bv(a))
    def Inc(self, a): return self._n(self.real.Inc(a.real), bv(a) + 1)
    def Dec(self, a): return self._n(self.real.Dec(a.real), bv(a) - 1)
    def Redor(self, a): return self._n(self.real.Redor(a.real), bv(a) != 0)
    def Redand(self, a): return self._n(self.real.Redand(a.real), bv(a) == z3.BitVecVal(-1, bv(a).size()))

    def Implies(self, a, b):
        return self._n(self.real.Implies(a.real, b.real), z3.Implies(boolz(a), boolz(b)))

    def Cond(self, c, a, b):
        return self._n(self.real.Cond(c.real, a.real, b.real), z3.If(boolz(c), bv(a), bv(b)))

    def Uext(self, a, n): return self._n(self.real.Uext(a.real, int(n)), z3.ZeroExt(int(n), bv(a)))
    def Sext(self, a, n): return self._n(self.real.Sext(a.real, int(n)), z3.SignExt(int(n), bv(a)))

    def Slice(self, a, u, l):
        u = int(u); l = int(l)
        return self._n(self.real.Slice(a.real, u, l), z3.Extract(u, l, bv(a)))

    # ---- solving
    def Assume(self, n):
        self.real.Assume(n.real)
        self.assumed.append(n)
        self.trace.append(("assume", n))

    def Assert(self, n):
        self.real.Assert(n.real)
        self.asserted.append(n)
        self.trace.append(("assert", n))

    def Sat(self):
        r = self.real.Sat()
        st = MirrorBoolector.stats
        st["sat_calls"] += 1
        assumed = list(self.assumed)
        self.trace.append(("sat", r, assumed, len(self.asserted)))
        self.assumed = []
        if MirrorBoolector.validate:
            t = time.time()
            s = z3.Solver()
            s.set("timeout", 20000)
            for n in self.asserted:
                s.add(boolz(n))
            for n in assumed:
                s.add(boolz(n))
            zr = s.check()
            st["z3_s"] += time.time() - t
            if zr == z3.unknown:
                st["z3_unknown"] += 1
            else:
                st["verdict_checked"] += 1
                if (zr == z3.sat) != (r == RealBoolector.SAT):
                    st["verdict_disagree"] += 1
                    MirrorBoolector.disagreements.append(("verdict", str(zr), r))
        return r

    def check_reads(self):
        """the values pyvsc read back, substituted into the mirrored assertions, must satisfy all of them"""
        st = MirrorBoolector.stats
        subs = {}
        for t in self.trace:
            if t[0] == "read":
                subs[t[1].z.get_id()] = (t[1].z, z3.BitVecVal(int(t[2], 2), t[1].z.size()))
        subs = list(subs.values())
        ok = True
        for a in self.asserted:
            v = z3.simplify(z3.substitute(boolz(a), *subs)) if subs else z3.simplify(boolz(a))
            if z3.is_false(v):
                ok = False
        st["model_checked"] += 1
        if not ok:
            st["model_disagree"] += 1
            MirrorBoolector.disagreements.append(("model", None, None))
        return ok
