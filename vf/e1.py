"""E1 harness: run a program (classes + world + history of operations) on the REAL pyvsc with the Boolector mirror
installed, and decide each randomize call against the reference semantics with z3.

run_program(spec) -> result dict (picklable).  spec = {"prog": {...}, "world": [[name, kind, ...]], "ops": [...],
"checks": {...options}}.
"""
import sys, time, types, traceback, copy, io, contextlib
import z3
from . import prog as P
from . import refsem as R
from . import mirror as M

_installed = [False]
_state = {"node2fm": {}, "calls": []}


def install():
    if _installed[0]:
        return
    import vsc
    import vsc.model.randomizer as RZ
    from vsc.model.field_scalar_model import FieldScalarModel
    from vsc.model.solvegroup_swizzler_partsel import SolveGroupSwizzlerPartsel
    RZ.Boolector = M.MirrorBoolector
    for patch_point in ("Boolector",):
        if not hasattr(RZ, patch_point):
            raise RuntimeError("patch point vsc.model.randomizer.%s missing" % patch_point)
    ob = FieldScalarModel.build

    def build(self, btor):
        was = self.var is None
        r = ob(self, btor)
        if was and isinstance(r, M.MNode):
            _state["node2fm"][id(r)] = (r, self)
        return r
    FieldScalarModel.build = build

    osw = SolveGroupSwizzlerPartsel.swizzle

    def swizzle(self, btor, rs, bound_m):
        if isinstance(btor, M.MirrorBoolector):
            dom = {}
            for f in rs.all_fields():
                if f in bound_m.keys():
                    dom[id(f)] = (f, [list(map(int, r)) for r in bound_m[f].domain.range_l])
            btor.trace.append(("swizzle", rs, dom, [list(l) for l in rs.rand_order_l] if rs.rand_order_l is not None else None))
        return osw(self, btor, rs, bound_m)
    SolveGroupSwizzlerPartsel.swizzle = swizzle

    orand = RZ.Randomizer.randomize

    def randomize(self, ri, bound_m):
        call = {"unconstrained": [(f, [list(map(int, r)) for r in bound_m[f].domain.range_l] if f in bound_m else None)
                                  for f in ri.unconstrained()],
                "bound_m": bound_m, "ri": ri}
        _state["calls"].append(call)
        cb = _state.get("fm_paths_cb")
        if cb is not None:
            try:
                _state.setdefault("fm_path_snap", {}).update(cb())      # lists are at their pre-allocated length here
            except Exception:
                pass
        return orand(self, ri, bound_m)
    RZ.Randomizer.randomize = randomize

    from vsc.model.constraint_dist_scope_model import ConstraintDistScopeModel
    ontr = ConstraintDistScopeModel.next_target_range

    def next_target_range(self, randstate):
        d = _state.setdefault("dist_scopes", {})
        if id(self) not in d:
            d[id(self)] = (self, list(self.weight_list), self.total_weight)
        return ontr(self, randstate)
    ConstraintDistScopeModel.next_target_range = next_target_range
    _installed[0] = True


def wrapv(v, w, signed):
    v &= (1 << w) - 1
    if signed and v >> (w - 1):
        v -= 1 << w
    return v


# ------------------------------------------------------------------------------------------ world
class World(object):
    def __init__(self, spec):
        self.spec = spec
        self.prog = spec["prog"]
        self.src = P.gen_source(self.prog)
        self.ns = {}
        exec(compile(self.src, "<prog>", "exec"), self.ns)
        self.vsc = self.ns["vsc"]
        self.ns["_now"] = lambda: sum(len(i.trace) for i in M.MirrorBoolector.instances)
        self.W = types.SimpleNamespace()
        self.sync_errors = []
        self.shadow = {"k": "o", "cls": None, "rand": False, "rand_mode": False, "fields": {}, "cmode": {}}
        for w in spec["world"]:
            self.new(w)

    def new(self, w):
        name, kind = w[0], w[1]
        vsc = self.vsc
        if kind == "obj":
            setattr(self.W, name, self.ns[w[2]]())
            self.shadow["fields"][name] = P.mk_obj(self.prog, w[2], False)
        elif kind in ("u", "s"):
            t = ("rand_" if w[3] else "") + ("int_t" if kind == "s" else "bit_t")
            setattr(self.W, name, getattr(vsc, t)(w[2]))
            self.shadow["fields"][name] = P.mk_scalar(w[2], kind == "s", w[3])
        elif kind == "list":
            # a free-standing list: w = [name, "list", elem, size, rand, randsz]
            elem, size, lrand, randsz = w[2], w[3], w[4], w[5]
            et = getattr(vsc, "int_t" if elem[0] == "s" else "bit_t")(elem[1])
            if randsz:
                lst = vsc.randsz_list_t(et)
                for _ in range(size):
                    lst.append(0)
            else:
                lst = (vsc.rand_list_t if lrand else vsc.list_t)(et, sz=size)
            setattr(self.W, name, lst)
            self.shadow["fields"][name] = {"k": "l", "elem": list(elem), "rand": lrand, "rand_mode": lrand, "randsz": randsz,
                                           "elems": [P.mk_elem(self.prog, elem, lrand) for _ in range(size)]}
        else:
            raise Exception("world kind " + kind)

    # ---- real object access
    def real(self, path, raw=False):
        o = self.W
        for p in path:
            if isinstance(p, int):
                o = o[p]
            elif raw:
                with self.vsc.raw_mode():
                    o = getattr(o, p)
            else:
                o = getattr(o, p)
        return o

    def read_leaf(self, path):
        """value the user sees at an absolute leaf path"""
        if path[-1] == "size":
            lst = self.real(path[:-1])
            return int(lst.size)
        if len(path) == 1:
            o = getattr(self.W, path[0])
            return int(o.get_val())
        parent = self.real(path[:-1])
        last = path[-1]
        v = parent[last] if isinstance(last, int) else getattr(parent, last)
        return int(v)

    def sync_shadow_values(self):
        """copy the values the user currently sees into the shadow (lists are re-sized to what the user sees)"""
        self._sync(self.shadow, ())

    def _sync(self, node, path):
        k = node["k"]
        if k in ("s", "e"):
            try:
                node["val"] = self.read_leaf(path)
            except Exception as e:
                # the facade itself is inconsistent (e.g. len() exceeds the elements present): reported, not fatal
                self.sync_errors.append("%s: reading raised %s: %s" % (R.vname(path), type(e).__name__, str(e)[:80]))
        elif k == "o":
            for n, ch in node["fields"].items():
                if ch["k"] != "rl":
                    self._sync(ch, path + (n,))
        elif k == "l":
            try:
                lst = self.real(path)
                n = len(lst)
            except Exception as e:
                # e.g. the library is stuck in expression mode after an aborted call (reported by the idle check)
                self.sync_errors.append("%s: len() raised %s: %s" % (R.vname(path), type(e).__name__, str(e)[:80]))
                return
            if node["elem"][0] == "obj":
                n = len(lst.backing_arr)       # the objects the user put in (a random size only hides a suffix of them)
            while len(node["elems"]) > n:
                node["elems"].pop()
            while len(node["elems"]) < n:
                node["elems"].append(P.mk_elem(self.prog, node["elem"], node["rand"]))
            for i, ch in enumerate(node["elems"]):
                self._sync(ch, path + (i,))

    def snapshot(self):
        out = {}
        for path, n in P.walk_leaves(self.shadow):
            try:
                out[path] = self.read_leaf(path)
            except Exception as e:
                out[path] = "ERR:%s" % type(e).__name__
        return out

    def fm_paths(self):
        """id(field model) -> absolute path, by walking the real model tree along the shadow"""
        out = {}
        for name, node in self.shadow["fields"].items():
            o = getattr(self.W, name)
            self._fm(node, o.get_model(), (name,), out)
        return out

    def _fm(self, node, fm, path, out):
        k = node["k"]
        if k in ("s", "e"):
            out[id(fm)] = path
        elif k == "o":
            for n, ch in node["fields"].items():
                if ch["k"] == "rl":
                    continue
                sub = fm.find_field(n)
                if sub is None:
                    raise RuntimeError("model field %s not found under %s" % (n, path))
                self._fm(ch, sub, path + (n,), out)
        elif k == "l":
            out[id(fm.size)] = path + ("size",)
            for i, ch in enumerate(node["elems"]):
                if i < len(fm.field_l):
                    self._fm(ch, fm.field_l[i], path + (i,), out)
            # elements the library pre-allocated beyond the user-visible size
            for i in range(len(node["elems"]), len(fm.field_l)):
                sub = fm.field_l[i]
                if hasattr(sub, "field_l"):
                    continue
                out[id(sub)] = path + (i,)


# ------------------------------------------------------------------------------------------ solving helpers
class Q(object):
    def __init__(self):
        self.n = {"unsat": 0, "sat": 0, "unknown": 0}
        self.t = 0.0

    def check(self, *fs, timeout=20000):
        s = z3.Solver()
        s.set("timeout", timeout)
        for f in fs:
            s.add(f)
        t = time.time()
        r = s.check()
        self.t += time.time() - t
        self.n[str(r)] += 1
        return str(r), (s.model() if r == z3.sat else None)


def model_values(model, vars_):
    out = {}
    for nm, v in vars_.items():
        mv = model.eval(v, model_completion=True)
        out[nm] = mv.as_long()
    return out


# ------------------------------------------------------------------------------------------ executing one history
def apply_simple_op(world, op):
    """non-randomize operations: applied to the real object and to the shadow"""
    k = op[0]
    vsc = world.vsc
    if k == "cg_fault":
        # construction of a covergroup aborted by an exception after expressions were evaluated; nothing of it may reach later calls
        src = {
            "typo_kwarg": "self.cp = vsc.coverpoint(self.a, iff=(self.en == 1), binz=dict(x=vsc.bin_array([], (0, 15))))",
            "user_raise": "e = (self.a == 3)\n        raise UserFault('cg-ctor')",
            "user_raise_two": "e = (self.a == 3)\n        f = (self.en != self.a)\n        raise UserFault('cg-ctor')",
        }[op[1]]
        ns = dict(world.ns)
        ns["vsc"] = vsc
        code = ("@vsc.covergroup\nclass CGF(object):\n    def __init__(self):\n        self.with_sample(dict(a=vsc.bit_t(4), en=vsc.bit_t(1)))\n"
                "        %s\n" % src)
        exec(code, ns)
        try:
            ns["CGF"]()
        except Exception:
            pass
        return
    if k == "illformed_call":
        # a randomize_with whose inline body is ill-formed (refers to an element the list does not have): whatever it raises is the
        # user's; what is checked is that the object is usable and idle afterwards
        _do_call(world, ["randomize_with", op[1], op[2]])
        world.sync_shadow_values()
        return
    if k == "set":
        path, v = tuple(op[1]), op[2]
        try:
            node = P.get_node(world.shadow, path)
        except (IndexError, KeyError):
            return      # e.g. l[i] after the list was cleared: not a valid user action, skipped on both sides
        if len(path) == 1:
            getattr(world.W, path[0]).set_val(v)
        else:
            parent = world.real(path[:-1])
            if isinstance(path[-1], int):
                parent[path[-1]] = v
            else:
                setattr(parent, path[-1], v)
        if node["k"] == "s":
            node["val"] = wrapv(v, node["w"], node["signed"])
        else:
            node["val"] = v
    elif k == "rand_mode":
        path, b = tuple(op[1]), op[2]
        node = P.get_node(world.shadow, path)
        fo = world.real(path, raw=True)
        with vsc.raw_mode():
            fo.rand_mode = b
        node["rand_mode"] = bool(b)
    elif k in ("cmode", "cmode_raw"):
        path, bn, b = tuple(op[1]), op[2], op[3]
        obj = world.real(path)
        if k == "cmode_raw":
            # the toggle is made inside a raw_mode region (where users switch rand_mode of fields)
            with vsc.raw_mode():
                getattr(obj, bn).constraint_mode(b)
        else:
            getattr(obj, bn).constraint_mode(b)
        P.get_node(world.shadow, path)["cmode"][bn] = bool(b)
    elif k == "rl_append":
        path, item = tuple(op[1]), op[2]
        rl = world.real(path)
        if item[0] == "rng":
            rl.append((item[1][1], item[2][1]))
        else:
            rl.append(item[1])
        P.get_node(world.shadow, path)["items"].append(item)
    elif k == "rl_clear":
        path = tuple(op[1])
        world.real(path).clear()
        P.get_node(world.shadow, path)["items"].clear()
    elif k == "rl_extend":
        path = tuple(op[1])
        world.real(path).extend([(it[1][1], it[2][1]) if it[0] == "rng" else it[1] for it in op[2]])
        P.get_node(world.shadow, path)["items"].extend(op[2])
    elif k == "list_append":
        path, v = tuple(op[1]), op[2]
        node = P.get_node(world.shadow, path)
        lst = world.real(path)
        if node["elem"][0] == "obj":
            lst.append(world.ns[node["elem"][1]]())
            node["elems"].append(P.mk_obj(world.prog, node["elem"][1], node["rand"]))
        else:
            if node["elem"][0] == "enum":
                lst.append(world.ns[node["elem"][1]](v))
            else:
                lst.append(v)
            e = P.mk_elem(world.prog, node["elem"], node["rand"])
            e["val"] = wrapv(v, e["w"], e["signed"]) if e["k"] == "s" else v
            node["elems"].append(e)
    elif k == "list_set_obj":
        # l[k] = <new object of the element class>
        path, idx = tuple(op[1]), op[2]
        node = P.get_node(world.shadow, path)
        lst = world.real(path)
        lst[idx] = world.ns[node["elem"][1]]()
        node["elems"][idx] = P.mk_obj(world.prog, node["elem"][1], node["rand"])
    elif k == "list_clear":
        path = tuple(op[1])
        world.real(path).clear()
        P.get_node(world.shadow, path)["elems"].clear()
    elif k == "list_assign":
        path, vs = tuple(op[1]), op[2]
        node = P.get_node(world.shadow, path)
        parent = world.real(path[:-1])
        setattr(parent, path[-1], list(vs))
        node["elems"].clear()
        for v in vs:
            e = P.mk_elem(world.prog, node["elem"], node["rand"])
            e["val"] = wrapv(v, e["w"], e["signed"])
            node["elems"].append(e)
    elif k == "new":
        world.new(op[1])
    else:
        raise Exception("op " + str(op))


def _do_call(world, op, pins=None):
    """perform the randomize call on the real objects; returns exception or None"""
    k = op[0]
    vsc = world.vsc
    W = world.W
    ns = dict(world.ns)
    ns["W"] = W
    pin_lines = []
    exc = None
    try:
        kw = ""
        if k in ("randomize", "randomize_with"):
            extra = op[2] if (k == "randomize" and len(op) > 2) else (op[3] if (k == "randomize_with" and len(op) > 3) else None)
            if extra:
                kw = ", ".join("%s=%r" % (a, b) for a, b in sorted(extra.items()))
        if k == "randomize" and kw and not pins:
            ns["OBJ"] = world.real(tuple(op[1]))
            exec("OBJ.randomize(%s)" % kw, ns)
        elif k == "randomize":
            obj = world.real(tuple(op[1]))
            if pins:
                ns["it"] = None
                src = ["with OBJ.randomize_with() as it:"] + ["    " + l for l in P.py_stmts(pins, "it", 0)]
                ns["OBJ"] = obj
                exec("\n".join(src), ns)
            else:
                obj.randomize()
        elif k == "randomize_with":
            obj = world.real(tuple(op[1]))
            ns["OBJ"] = obj
            src = ["with OBJ.randomize_with(%s) as it:" % kw] + ["    " + l for l in P.py_stmts(list(op[2]) + list(pins or []), "it", 0)]
            exec("\n".join(src), ns)
        elif k == "vsc_randomize":
            roots = [world.real(tuple(p), raw=True) for p in op[1]]
            if pins:
                ns["ROOTS"] = roots
                src = ["with vsc.randomize_with(*ROOTS):"] + ["    " + l for l in P.py_stmts(pins, "W", 0)]
                exec("\n".join(src), ns)
            else:
                vsc.randomize(*roots)
        elif k == "vsc_randomize_with":
            roots = [world.real(tuple(p), raw=True) for p in op[1]]
            ns["ROOTS"] = roots
            src = ["with vsc.randomize_with(*ROOTS):"] + ["    " + l for l in P.py_stmts(list(op[2]) + list(pins or []), "W", 0)]
            exec("\n".join(src), ns)
        else:
            raise Exception("call " + str(op))
    except Exception as e:
        exc = e
    return exc


def call_roots(op):
    if op[0] in ("randomize", "randomize_with"):
        return [tuple(op[1])]
    return [tuple(p) for p in op[1]]


def call_inline(op):
    """(stmts, owner path) of the inline constraints of a call"""
    if op[0] == "randomize_with":
        return list(op[2]), tuple(op[1])
    if op[0] == "vsc_randomize_with":
        return list(op[2]), ()
    return [], ()


def build_ref(world, op, perturb=None, softs=None):
    """reference formula of a call in the current shadow state. returns (formula, env)"""
    P.clear_used(world.shadow)
    roots = call_roots(op)
    for rp in roots:
        _extend_randsz(world, P.get_node(world.shadow, rp))
    for rp in roots:
        P.mark_used_rand(P.get_node(world.shadow, rp), True, 0)
    env = R.Env(world.prog, world.shadow, (), {}, perturb)
    # values that pre_randomize assigns (on objects that are random in the call) are what the solver must see
    pre_sets = {}
    for rp in roots:
        _apply_pre_sets(world, P.get_node(world.shadow, rp), rp, pre_sets)
    acc = []
    for rp in roots:
        n = P.get_node(world.shadow, rp)
        if n["k"] == "o":
            acc.append(R.object_formula(env, rp, softs))
    stmts, owner = call_inline(op)
    if stmts:
        acc.append(R.stmts_formula(stmts, env.child(owner=owner), softs))
    refc = z3.And(*acc) if acc else z3.BoolVal(True)
    env.refc = refc
    env.pre_sets = pre_sets
    return z3.And(refc, R.type_domain(env)), env


LIST_BOUND = 4


def _extend_randsz(world, node):
    """a random-size scalar list may end up with any size its constraints admit: give the reference element variables up
    to the bound (programs constrain size <= LIST_BOUND); elements at or beyond the final size are phantoms"""
    if node["k"] == "o":
        for ch in node["fields"].values():
            _extend_randsz(world, ch)
    elif node["k"] == "l":
        if node["randsz"] and node["elem"][0] != "obj":
            while len(node["elems"]) < LIST_BOUND:
                node["elems"].append(P.mk_elem(world.prog, node["elem"], node["rand"]))
        for ch in node["elems"]:
            _extend_randsz(world, ch)


def phantom_groups(world, env):
    """[(size var, index, [element variable names])] for every random-size list that is random in the call"""
    out = []

    def walk(node, path):
        if node["k"] == "o":
            for fn, ch in node["fields"].items():
                if ch["k"] != "rl":
                    walk(ch, path + (fn,))
        elif node["k"] == "l":
            if node.get("size_used"):
                sz, _, _ = env.leaf_term(path + ("size",))
                pre = R.vname(path) + "/"
                byidx = {}
                for nm in list(env.vars):
                    # every solver variable under an element of the list, including elements the library pre-allocated
                    # beyond the reference's bound
                    if nm.startswith(pre):
                        head = nm[len(pre):].split("/")[0]
                        if head.isdigit():
                            byidx.setdefault(int(head), []).append(nm)
                for i, names in sorted(byidx.items()):
                    out.append((sz, i, names))
            for i, ch in enumerate(node["elems"]):
                walk(ch, path + (i,))
    walk(world.shadow, ())
    return out


def list_facade_findings(world):
    """len(), size, indexing and iteration agree on every list of the tree (observation on the real objects)"""
    out = []

    def walk(node, path):
        if node["k"] == "o":
            for fn, ch in node["fields"].items():
                if ch["k"] != "rl":
                    walk(ch, path + (fn,))
        elif node["k"] == "l":
            try:
                lst = world.real(path)
                n = len(lst)
                sz = int(lst.size)
                it = list(lst)
                if not (n == sz == len(it)):
                    out.append("%s: len()=%d size=%d iteration yields %d elements" % (R.vname(path), n, sz, len(it)))
                else:
                    # indexing agrees with the length: nothing at index len(), the last element at -1
                    try:
                        lst[n]
                        out.append("%s: l[%d] is reachable although len()=%d" % (R.vname(path), n, n))
                    except IndexError:
                        pass
                    if n > 0:
                        last = lst[-1]
                        same = (last is it[-1]) if node["elem"][0] == "obj" else (last == it[-1])
                        if not same:
                            out.append("%s: l[-1] is not the last element iteration yields" % (R.vname(path),))
                if not (n == sz == len(it)):
                    pass
                elif node["elem"][0] in ("u", "s"):
                    for i in range(n):
                        if int(lst[i]) != int(it[i]):
                            out.append("%s: l[%d]=%d but iteration yields %d" % (R.vname(path), i, int(lst[i]), int(it[i])))
                    if len(node["elems"]) == n:
                        exp = [ch["val"] for ch in node["elems"]]
                        if exp != [int(x) for x in it] and node.get("_expect_vals"):
                            out.append("%s: exposes %s, expected %s" % (R.vname(path), [int(x) for x in it], exp))
                    elif node.get("_expect_vals"):
                        out.append("%s: exposes %d elements, expected %d" % (R.vname(path), n, len(node["elems"])))
                elif node["elem"][0] == "obj":
                    for i in range(n):
                        if lst[i] is not it[i]:
                            out.append("%s: l[%d] is not the object iteration yields" % (R.vname(path), i))
                    # the object the user reaches at index i is the one the solver randomizes at index i
                    fml = lst.get_model().field_l
                    if len(lst.backing_arr) != len(fml):
                        out.append("%s: holds %d objects but %d element models" % (R.vname(path), len(lst.backing_arr), len(fml)))
                    for i in range(min(n, len(fml))):
                        if lst[i].get_model() is not fml[i]:
                            out.append("%s: l[%d] is not the object whose model sits at index %d of the list" % (R.vname(path), i, i))
            except Exception as e:
                out.append("%s: list access raised %s: %s" % (R.vname(path), type(e).__name__, str(e)[:100]))
            for i, ch in enumerate(node["elems"]):
                walk(ch, path + (i,))
    walk(world.shadow, ())
    return out


def _apply_pre_sets(world, node, path, pre_sets):
    if node["k"] == "o" and node.get("used"):
        hook = P.cls_spec(world.prog, node["cls"]).get("pre_randomize") if node.get("cls") else None
        for act in hook or []:
            if act[0] == "set":
                tgt = P.get_node(node, tuple(act[1]))
                tgt["val"] = wrapv(act[2], tgt["w"], tgt["signed"])
                pre_sets[tuple(path) + tuple(act[1])] = tgt["val"]
            elif act[0] == "append":
                # the hook grows a list of the object: the new element is part of the tree the call randomizes
                lst = P.get_node(node, tuple(act[1]))
                e = P.mk_elem(world.prog, lst["elem"], lst["rand"])
                if e["k"] == "s":
                    e["val"] = wrapv(act[2], e["w"], e["signed"])
                lst["elems"].append(e)
                P.mark_used_rand(e, lst.get("used"), 2)
                lp = tuple(path) + tuple(act[1])
                pre_sets[lp + ("size",)] = len(lst["elems"])
                for sub, nd in P.walk_leaves(e, lp + (len(lst["elems"]) - 1,)):
                    if nd.get("k") in ("s", "e") and sub[-1] != "size":
                        pre_sets[sub] = nd["val"]
        for fn, ch in node["fields"].items():
            _apply_pre_sets(world, ch, tuple(path) + (fn,), pre_sets)
    elif node["k"] == "l":
        for i, ch in enumerate(node["elems"]):
            _apply_pre_sets(world, ch, tuple(path) + (i,), pre_sets)


def extract_hard(instances, fm_path, env):
    """A_hard over reference variable names, plus trace facts"""
    hard = []
    subs = []
    unmapped = []
    facts = {"t1": True, "t2": True, "t3": True, "n_instances": len(instances), "n_sat": 0}
    for inst in instances:
        first_sat = None
        for i, t in enumerate(inst.trace):
            if t[0] == "sat":
                first_sat = i
                break
        pre = inst.trace if first_sat is None else inst.trace[:first_sat]
        hard_nodes = []
        for t in pre:
            if t[0] in ("assume", "assert"):
                hard.append(M.boolz(t[1]))
                hard_nodes.append(t[1])
        for t in inst.trace:
            if t[0] == "var":
                ent = _state["node2fm"].get(id(t[1]))
                path = fm_path.get(id(ent[1])) if ent is not None else None
                if path is None:
                    nm = "unmapped_%d" % len(unmapped)
                    unmapped.append((nm, getattr(ent[1], "fullname", "?") if ent else "?"))
                    subs.append((t[1].z, z3.BitVec(nm, t[1].z.size())))
                else:
                    nm = R.vname(path)
                    if nm not in env.vars:
                        env.vars[nm] = z3.BitVec(nm, t[1].z.size())
                    v = env.vars[nm]
                    if v.size() != t[1].z.size():
                        # width mismatch between the library's variable and the declared type
                        unmapped.append((nm, "width %d != declared %d" % (t[1].z.size(), v.size())))
                        subs.append((t[1].z, z3.BitVec(nm + "__w", t[1].z.size())))
                    else:
                        subs.append((t[1].z, v))
        # trace invariant T1: every hard node is asserted before the first value is read back
        asserted_ids = set()
        hard_ids = set(id(n) for n in hard_nodes)
        for t in inst.trace:
            if t[0] == "sat":
                facts["n_sat"] += 1
                facts["last_sat"] = (t[1] == M.MirrorBoolector.SAT)
            elif t[0] == "assert":
                asserted_ids.add(id(t[1]))
            elif t[0] == "read":
                if not hard_ids.issubset(asserted_ids):
                    facts["t1"] = False
                if not facts.get("last_sat", False):
                    facts["t2"] = False      # value read although the last check was not SAT
    A = z3.And(*hard) if hard else z3.BoolVal(True)
    if subs:
        A = z3.substitute(A, *subs)
    return A, unmapped, facts, subs


def idle_findings(world):
    """C16: shared construction state idle, no temporary constraint rewrites, no solver handles left in the models"""
    out = []
    from vsc.impl import ctor, expr_mode
    from vsc.model.constraint_override_model import ConstraintOverrideModel
    for nm, st in (("constraint_scope_stack", ctor.constraint_scope_stack), ("expr_l", ctor.expr_l), ("srcinfo_mode_s", ctor.srcinfo_mode_s),
                   ("foreach_arr_s", ctor.foreach_arr_s), ("_expr_mode", expr_mode._expr_mode), ("_raw_mode", expr_mode._raw_mode)):
        if len(st) != 0:
            out.append("shared stack %s holds %d leftover entries" % (nm, len(st)))
            del st[:]          # restore, so that one leak is reported once and later ops are judged on their own

    def walk_c(c, where, seen):
        if id(c) in seen:
            return
        seen.add(id(c))
        if isinstance(c, ConstraintOverrideModel):
            out.append("leftover ConstraintOverrideModel in %s" % where)
        for attr in ("constraint_l",):
            for ch in getattr(c, attr, None) or []:
                walk_c(ch, where, seen)
        for attr in ("true_c", "false_c", "new_constraint", "orig_constraint"):
            ch = getattr(c, attr, None)
            if ch is not None and hasattr(ch, "accept"):
                walk_c(ch, where, seen)

    def walk_f(fm, where, seen):
        if id(fm) in seen:
            return
        seen.add(id(fm))
        if getattr(fm, "var", None) is not None:
            out.append("field %s still holds a solver node" % where)
        if getattr(fm, "is_used_rand", False):
            out.append("field %s is still marked as used-random" % where)
        sz = getattr(fm, "size", None)
        if sz is not None and hasattr(sz, "var"):
            walk_f(sz, where + ".size", seen)
            try:
                if getattr(fm, "is_scalar", False) and len(fm.field_l) != int(sz.get_val()):
                    out.append("list %s holds %d element models but its size is %d (pre-allocated elements left behind)" % (
                        where, len(fm.field_l), int(sz.get_val())))
            except Exception:
                pass
        for c in getattr(fm, "constraint_model_l", None) or []:
            walk_c(c, where + ":" + str(getattr(c, "name", "?")), set())
        for c in getattr(fm, "constraint_dynamic_model_l", None) or []:
            walk_c(c, where + ":" + str(getattr(c, "name", "?")), set())
        for ch in getattr(fm, "field_l", None) or []:
            walk_f(ch, where + "." + str(getattr(ch, "name", "?")), seen)
    for name in world.shadow["fields"]:
        try:
            fm = getattr(world.W, name).get_model()
        except Exception as e:
            out.append("get_model() of %s raised %s" % (name, type(e).__name__))
            continue
        walk_f(fm, name, set())
    return out


def _quiet():
    return contextlib.redirect_stdout(io.StringIO())


def run_program(spec):
    """Execute the history.  Returns dict with per-call verdicts and any findings (not yet replayed)."""
    install()
    import vsc
    from vsc.model.solve_failure import SolveFailure
    opts = spec.get("checks", {})
    out = {"calls": [], "findings": [], "error": None, "q": {"unsat": 0, "sat": 0, "unknown": 0}, "solver_s": 0.0,
           "mirror": None}
    q = Q()
    M.MirrorBoolector.stats = {k: 0 for k in M.MirrorBoolector.stats}
    M.MirrorBoolector.stats["z3_s"] = 0.0
    M.MirrorBoolector.disagreements = []
    try:
        with _quiet():
            world = World(spec)
    except Exception as e:
        if type(e).__name__ in ("SyntaxError", "NameError", "KeyError") and "vsc" not in traceback.format_exc()[-600:]:
            out["error"] = "construction: %s: %s" % (type(e).__name__, e)
            out["trace"] = traceback.format_exc()[-2000:]
            return out
        # a program of the generated families is legal pyvsc: an exception while its classes are declared / objects constructed comes
        # from the library (replayed without the mirror before it is reported)
        out["findings"].append({"kind": "other_exception", "what": "constructing the program's objects raised %s: %s" % (type(e).__name__, str(e)[:300]),
                                "op": -1, "call": ["construct"], "tb": traceback.format_exc()[-1500:]})
        return out
    out["src"] = world.src
    for oi, op in enumerate(spec["ops"]):
        if op[0] == "new_fault":
            # constructing an object whose constraint body / constructor raises in user code
            try:
                with _quiet():
                    world.ns[op[1][2]]()
                out["findings"].append({"kind": "harness", "what": "new_fault: construction of %s did not raise" % op[1][2], "op": oi})
            except Exception as e:
                if type(e).__name__ != "UserFault":
                    out["findings"].append({"kind": "other_exception", "what": "construction raised %s: %s instead of the user's exception" % (
                        type(e).__name__, str(e)[:200]), "op": oi, "call": op})
            out["calls"].append({"op": oi, "kind": "new_fault"})
        elif op[0] not in ("randomize", "randomize_with", "vsc_randomize", "vsc_randomize_with"):
            try:
                with _quiet():
                    apply_simple_op(world, op)
            except Exception as e:
                out["error"] = "op %d %s: %s: %s" % (oi, op[0], type(e).__name__, e)
                out["trace"] = traceback.format_exc()[-2000:]
                return out
            if opts.get("check_lists") and op[0].startswith("list_"):
                node = P.get_node(world.shadow, tuple(op[1]))
                node["_expect_vals"] = True
                with _quiet():
                    lf = list_facade_findings(world)
                node["_expect_vals"] = False
                for w in lf:
                    out["findings"].append({"kind": "list_facade", "what": "after op %d %s: %s" % (oi, op, w), "op": oi, "call": op})
                with _quiet():
                    world.sync_shadow_values()
            if not opts.get("check_idle"):
                continue
        else:
            rec = decide_call(world, spec, oi, op, q, opts, SolveFailure)
            out["calls"].append(rec["summary"])
            out["findings"].extend(rec["findings"])
            if rec.get("fatal"):
                break
        if opts.get("check_idle"):
            for what in idle_findings(world):
                out["findings"].append({"kind": "not_idle", "what": "after op %d %s: %s" % (oi, op[0], what), "op": oi, "call": op})
    out["q"] = q.n
    out["solver_s"] = q.t
    out["mirror"] = dict(M.MirrorBoolector.stats)
    out["mirror"]["disagreements"] = len(M.MirrorBoolector.disagreements)
    return out


def collect_objs(world):
    """id(real object) -> (path, shadow node) for every object node of the tree"""
    objs = {}

    def walk(node, path):
        if node["k"] == "o":
            try:
                objs[id(world.real(path))] = (path, node)
            except Exception:
                pass
            for fn, ch in node["fields"].items():
                walk(ch, tuple(path) + (fn,))
        elif node["k"] == "l":
            for i, ch in enumerate(node["elems"]):
                walk(ch, tuple(path) + (i,))
    walk(world.shadow, ())
    return objs


def decide_call(world, spec, oi, op, q, opts, SolveFailure):
    findings = []
    # the state the user sees right before the call
    with _quiet():
        world.sync_shadow_values()
    for w_ in world.sync_errors:
        findings.append({"kind": "list_facade", "what": "before op %d: %s" % (oi, w_), "op": oi, "call": op})
    del world.sync_errors[:]
    before = world.snapshot()
    softs = []
    try:
        ref, env = build_ref(world, op, opts.get("perturb"), softs)
    except Exception as e:
        return {"summary": {"op": oi, "error": "refsem: %s: %s" % (type(e).__name__, e)}, "findings": [
            {"kind": "harness", "what": "reference semantics failed: %s %s" % (e, traceback.format_exc()[-1500:])}], "fatal": True}
    for pth, v in getattr(env, "pre_sets", {}).items():
        before[pth] = v
    M.MirrorBoolector.reset()
    _state["node2fm"].clear()
    _state["calls"].clear()
    _state["dist_scopes"] = {}
    if "EVENTS" in world.ns:
        del world.ns["EVENTS"][:]
    _state["fm_paths_cb"] = world.fm_paths
    _state["fm_path_snap"] = {}
    # the objects of the tree as they are when the call starts (a smaller solved size may drop list elements during the call)
    try:
        world.pre_call_objs = collect_objs(world)
    except Exception:
        world.pre_call_objs = {}
    with _quiet():
        exc = _do_call(world, op)
    _state["fm_paths_cb"] = None
    instances = list(M.MirrorBoolector.instances)
    try:
        fm_path = dict(_state.get("fm_path_snap") or {})
        fm_path.update(world.fm_paths())
    except Exception as e:
        if str(e).startswith("model field"):
            # an attribute the class declares (and the user reads and writes) has no counterpart in the object's model: it can never be
            # random and constraints naming it are not about it
            return {"summary": {"op": oi, "error": "fm_paths: %s" % e}, "findings": [
                {"kind": "model_field_missing", "what": "a declared field is not part of the object's model: %s" % e, "op": oi, "call": op}], "fatal": True}
        return {"summary": {"op": oi, "error": "fm_paths: %s" % e}, "findings": [
            {"kind": "harness", "what": "cannot map model fields to paths: %s" % e}], "fatal": True}
    A, unmapped, facts, subs = extract_hard(instances, fm_path, env)
    r3, m3 = q.check(ref)
    summary = {"op": oi, "kind": op[0], "ref_sat": r3, "exc": type(exc).__name__ if exc is not None else None,
               "facts": {k: v for k, v in facts.items()}, "n_vars": len(env.vars)}

    def finding(kind, what, **kw):
        d = {"kind": kind, "what": what, "op": oi, "call": op}
        d.update(kw)
        findings.append(d)

    # ---------------- exception behaviour (C02)
    if exc is not None and type(exc).__name__ == "UserFault":
        summary["user_fault"] = True          # raised by user code: propagates legitimately
    elif exc is not None and not isinstance(exc, SolveFailure):
        finding("other_exception", "call raised %s: %s" % (type(exc).__name__, str(exc)[:300]), ref_sat=r3,
                tb="".join(traceback.format_exception(type(exc), exc, exc.__traceback__))[-1500:])
    elif exc is not None:
        if r3 == "sat":
            finding("spurious_failure", "SolveFailure although the reference constraints are satisfiable",
                    witness=model_values(m3, env.vars))
    else:
        if r3 == "unsat":
            finding("missed_failure", "call returned normally although the reference constraints are unsatisfiable")
    # ---------------- formula equivalence (Q1, Q2) -- meaningful when the whole call was lowered
    if exc is None:
        if unmapped:
            finding("unmapped_var", "solver variables without a user-visible field: %s" % (unmapped,))
        # enum domains are asserted in the solver only for fields that are solver variables; a field no constraint
        # mentions is drawn directly from its inferred domain (its returned value is checked by out_of_type below)
        solver_vars = set(str(b) for a, b in subs)
        ref1 = z3.And(env.refc, R.type_domain(env, solver_vars))
        r1, m1 = q.check(A, z3.Not(ref1))
        summary["q1"] = r1
        if r1 == "sat":
            finding("under_constrained", "the asserted hard formula admits values that violate the reference constraints",
                    witness=model_values(m1, env.vars))
        ph = phantom_groups(world, env)
        if ph:
            # elements at or beyond the final size are not user-visible: the library may constrain them as it likes.
            # over-constraint = a visible solution for which NO choice of the invisible elements satisfies the asserted formula
            primed = {}
            agree = []
            for sz, i, names in ph:
                for nm in names:
                    v = env.vars[nm]
                    if nm not in primed:
                        primed[nm] = z3.BitVec(nm + "'", v.size())
                    agree.append(z3.Implies(z3.ULT(z3.BitVecVal(i, 32), sz), primed[nm] == v))
            if primed:
                A2 = z3.substitute(A, *[(env.vars[nm], pv) for nm, pv in primed.items()])
                r2, m2 = q.check(ref, z3.ForAll(list(primed.values()), z3.Not(z3.And(z3.And(*agree), A2))))
            else:
                r2, m2 = q.check(ref, z3.Not(A))
        else:
            r2, m2 = q.check(ref, z3.Not(A))
        summary["q2"] = r2
        if r2 == "sat":
            finding("over_constrained", "the asserted hard formula excludes values that satisfy the reference constraints",
                    witness=model_values(m2, env.vars))
        for key, txt in (("t1", "a hard constraint node was not asserted before values were read"),
                         ("t2", "values were read although the last solver check was not SAT")):
            if not facts[key]:
                finding("trace_" + key, txt)
        for inst in instances:
            if not inst.check_reads():
                finding("read_model", "values read from the solver do not satisfy the asserted formula")
        # ---------------- Q5: returned values, evaluated in Ref
        with _quiet():
            after = world.snapshot()
        summary["after"] = {R.vname(p): v for p, v in after.items()}
        # shadow lists may have changed size: re-sync and rebuild ref over the final structure for evaluation
        vals = []
        bad_type = []
        for nm, v in env.vars.items():
            path = _path_of(world, nm)
            if path is None or path not in after or not isinstance(after[path], int):
                continue
            vals.append((v, z3.BitVecVal(after[path], v.size())))
            node = _node_or_size(world, path)
            if node is not None and node["k"] == "s":
                lo = -(1 << (node["w"] - 1)) if node["signed"] else 0
                hi = (1 << (node["w"] - 1)) - 1 if node["signed"] else (1 << node["w"]) - 1
                if not (lo <= after[path] <= hi):
                    bad_type.append((nm, after[path]))
            if node is not None and node["k"] == "e":
                if after[path] not in [mv for _, mv in world.prog["enums"][node["enum"]]]:
                    bad_type.append((nm, after[path]))
        # fields no constraint mentions are drawn directly from their inferred domain: their values are range-checked as well
        seen_bt = set(n for n, _ in bad_type)
        for path, node in P.walk_leaves(world.shadow):
            if path not in after or not isinstance(after[path], int) or path[-1] == "size" or R.vname(path) in seen_bt:
                continue
            if node.get("k") == "s":
                lo = -(1 << (node["w"] - 1)) if node["signed"] else 0
                hi = (1 << (node["w"] - 1)) - 1 if node["signed"] else (1 << node["w"]) - 1
                if not (lo <= after[path] <= hi):
                    bad_type.append((R.vname(path), after[path]))
            elif node.get("k") == "e":
                if after[path] not in [mv for _, mv in world.prog["enums"][node["enum"]]]:
                    bad_type.append((R.vname(path), after[path]))
        if bad_type:
            finding("out_of_type", "returned value outside the declared type: %s" % bad_type)
        if not opts.get("skip_q5"):
            got = z3.simplify(z3.substitute(ref, *vals)) if vals else z3.simplify(ref)
            if z3.is_false(got):
                finding("returned_values_violate", "the values returned violate the reference constraints",
                        returned={R.vname(p): v for p, v in after.items()})
            elif not z3.is_true(got):
                # some reference variable had no readable value (e.g. list shrank): decide by solving
                rr, _ = q.check(z3.substitute(ref, *vals) if vals else ref)
                if rr == "unsat":
                    finding("returned_values_violate", "the values returned violate the reference constraints",
                            returned={R.vname(p): v for p, v in after.items()})
        if opts.get("check_lists"):
            with _quiet():
                world.sync_shadow_values()
                lf = list_facade_findings(world)
            for w in lf:
                finding("list_facade", w)
        # non-random leaves keep their values
        changed = []
        for path, n in P.walk_leaves(world.shadow):
            if path[-1] == "size":
                used = n.get("size_used")
            else:
                used = n.get("used")
            if not used and path in before and path in after and before[path] != after[path]:
                changed.append((R.vname(path), before[path], after[path]))
        if changed:
            finding("nonrandom_changed", "fields that are not random in the call changed: %s" % changed)
    else:
        with _quiet():
            after = world.snapshot()
        changed = []
        for path, n in P.walk_leaves(world.shadow):
            used = n.get("size_used") if path[-1] == "size" else n.get("used")
            if not used and path in before and path in after and before[path] != after[path]:
                changed.append((R.vname(path), before[path], after[path]))
        if changed:
            finding("nonrandom_changed", "fields that are not random in the call changed (failing call): %s" % changed)
        if opts.get("check_lists"):
            # random fields (and the content / length of random lists) are unspecified after a failing call: take them as the user
            # now sees them; len(), size, indexing and iteration must still agree
            # ... but a call that fails leaves every list with the length it had (as if the call had never happened)
            def _lens(node, path, acc):
                if node["k"] == "o":
                    for fn, ch in node["fields"].items():
                        if ch["k"] != "rl":
                            _lens(ch, path + (fn,), acc)
                elif node["k"] == "l":
                    acc.append((path, len(node["elems"])))
                    for i, ch in enumerate(node["elems"]):
                        _lens(ch, path + (i,), acc)
            acc = []
            _lens(world.shadow, (), acc)
            with _quiet():
                for pth, _n in acc:
                    n0 = before.get(pth + ("size",))          # what the user saw before the call
                    if not isinstance(n0, int):
                        continue
                    try:
                        n1 = len(world.real(pth))
                    except Exception:
                        continue
                    if n1 != n0:
                        finding("list_facade", "after the failing call: %s has %d elements, %d before the call" % (R.vname(pth), n1, n0))
            with _quiet():
                world.sync_shadow_values()
                lf = list_facade_findings(world)
            for w in lf:
                finding("list_facade", "after the failing call: " + w)
    summary["softs"] = len(softs)
    rec = {"summary": summary, "findings": findings, "A": A, "ref": ref, "env": env, "instances": instances,
           "softs": softs, "subs": subs, "before": before, "exc": exc, "fm_path": fm_path}
    for hook in opts.get("hooks", ()):
        hook(world, spec, oi, op, q, rec)
    return {"summary": summary, "findings": findings, "fatal": False}


def _path_of(world, nm):
    parts = []
    for s in nm.split("/"):
        parts.append(int(s) if s.lstrip("-").isdigit() else s)
    return tuple(parts)


def _node_or_size(world, path):
    try:
        if path[-1] == "size":
            return None
        return P.get_node(world.shadow, path)
    except Exception:
        return None


# ------------------------------------------------------------------------------------------ replay (no mirror)
def pins_for(world_shadow, prog_, witness, roots_owner_base):
    """inline constraints pinning every random leaf to the witness value (sized literals of the field's type)"""
    raise NotImplementedError


def replay_finding(spec, finding):
    """Re-run the history in a fresh interpreter state WITHOUT the mirror and confirm the finding through the public
    API.  Must be called in a process where install() has not run.  Returns (reproduced: bool, info)."""
    import vsc
    from vsc.model.solve_failure import SolveFailure
    assert not _installed[0], "replay must run without the mirror"
    if finding.get("call") == ["construct"]:
        try:
            with _quiet():
                World(spec)
        except Exception as e:
            return True, "constructing the program's objects raised %s: %s" % (type(e).__name__, str(e)[:200])
        return False, "construction succeeded"
    with _quiet():
        world = World(spec)
    oi = finding["op"]
    kind = finding["kind"]
    for i, op in enumerate(spec["ops"]):
        is_call = op[0] in ("randomize", "randomize_with", "vsc_randomize", "vsc_randomize_with")
        if i < oi:
            with _quiet():
                if is_call:
                    _do_call(world, op)
                elif op[0] == "new_fault":
                    try:
                        world.ns[op[1][2]]()
                    except Exception:
                        pass
                else:
                    apply_simple_op(world, op)
            continue
        if op[0] == "new_fault":
            try:
                with _quiet():
                    world.ns[op[1][2]]()
            except Exception as e:
                if type(e).__name__ != "UserFault":
                    return True, "construction raised %s: %s" % (type(e).__name__, str(e)[:200])
            return False, "construction raised the user's exception only"
        if not is_call:
            return False, "finding attached to a non-call operation"
        # the call under test
        with _quiet():
            world.sync_shadow_values()
        before = world.snapshot()
        ref, env = build_ref(world, op)
        if kind in ("under_constrained", "over_constrained", "spurious_failure"):
            pins = []
            wit = finding["witness"]
            for nm, v in wit.items():
                path = _path_of(world, nm)
                # elements at or beyond the (pinned) size of a random-size list are not user-visible: never pinned
                skip = False
                for j, pe in enumerate(path):
                    if isinstance(pe, int):
                        szn = R.vname(tuple(path[:j]) + ("size",))
                        if szn in wit and pe >= wit[szn]:
                            skip = True
                if skip:
                    continue
                try:
                    node = P.get_node(world.shadow, path) if path[-1] != "size" else None
                except Exception:
                    continue
                roots = call_roots(op)
                owner = roots[0] if op[0] in ("randomize", "randomize_with") else ()
                if tuple(path[:len(owner)]) != tuple(owner):
                    continue
                rel = list(path[len(owner):])
                if path[-1] == "size":
                    pins.append(["e", ["==", ["size", rel[:-1]], ["ulit", v, 32]]])
                    continue
                if not node.get("used"):
                    continue
                w = node["w"]
                if node["signed"]:
                    pins.append(["e", ["==", ["f", rel], ["slit", wrapv(v, w, True), w]]])
                else:
                    pins.append(["e", ["==", ["f", rel], ["ulit", v, w]]])
            with _quiet():
                exc = _do_call(world, op, pins)
            if kind == "under_constrained":
                # reference: pins contradict the constraints -> the call must fail
                if exc is None:
                    with _quiet():
                        after = world.snapshot()
                    return True, "pinned to %s the call returned normally with %s although these values violate the constraints" % (
                        finding["witness"], {R.vname(p): v for p, v in after.items()})
                # pinning changes what the library sees (e.g. a pinned list size is solved first); fall back to observing
                # the unpinned call: some draw must return values that violate the reference
                pin_info = "pinned call raised %s" % type(exc).__name__
                for attempt in range(30):
                    with _quiet():
                        world.sync_shadow_values()
                    ref2, env2 = build_ref(world, op)
                    with _quiet():
                        exc2 = _do_call(world, op)
                    if exc2 is not None:
                        continue
                    with _quiet():
                        after = world.snapshot()
                    vals = []
                    for nm, v in env2.vars.items():
                        pth = _path_of(world, nm)
                        if pth in after and isinstance(after[pth], int):
                            vals.append((v, z3.BitVecVal(after[pth], v.size())))
                    s2 = z3.Solver()
                    s2.set("timeout", 10000)
                    s2.add(z3.substitute(ref2, *vals) if vals else ref2)
                    if s2.check() == z3.unsat:
                        return True, "unpinned call returned %s which violates the constraints (%s)" % (
                            {R.vname(p_): v_ for p_, v_ in after.items()}, pin_info)
                return False, pin_info + "; no violating draw in 30 unpinned calls"
            else:
                if exc is not None:
                    return True, "pinned to the legal solution %s the call raised %s: %s" % (
                        finding["witness"], type(exc).__name__, str(exc)[:200])
                return False, "pinned call succeeded"
        with _quiet():
            exc = _do_call(world, op)
        if kind == "other_exception":
            if exc is not None and not isinstance(exc, SolveFailure):
                return True, "call raised %s: %s" % (type(exc).__name__, str(exc)[:300])
            return False, "no exception"
        if kind == "missed_failure":
            if exc is None:
                return True, "call returned normally although no assignment satisfies the constraints"
            return False, "raised %s" % type(exc).__name__
        if kind in ("returned_values_violate", "out_of_type", "nonrandom_changed"):
            # these are judged on concrete returned values; repeat a few draws
            for attempt in range(20):
                if exc is None:
                    with _quiet():
                        after = world.snapshot()
                    if kind == "nonrandom_changed":
                        for path, n in P.walk_leaves(world.shadow):
                            used = n.get("size_used") if path[-1] == "size" else n.get("used")
                            if not used and path in before and path in after and before[path] != after[path]:
                                return True, "%s changed from %r to %r" % (R.vname(path), before[path], after[path])
                    else:
                        vals = []
                        for nm, v in env.vars.items():
                            path = _path_of(world, nm)
                            if path in after and isinstance(after[path], int):
                                vals.append((v, z3.BitVecVal(after[path], v.size())))
                        got = z3.simplify(z3.substitute(ref, *vals)) if vals else z3.simplify(ref)
                        if z3.is_false(got):
                            return True, "returned %s violates the constraints" % ({R.vname(p): v for p, v in after.items()},)
                with _quiet():
                    exc = _do_call(world, op)
            return False, "not observed in 20 draws"
        return False, "finding kind %s has no public-API replay" % kind
    return False, "op not reached"


def replay(r):
    ok, info = replay_finding(r["spec"], r["finding"])
    return (not ok), info
