"""Reference semantics R (DESIGN.md section 4): an independent lowering of the user-level program to z3, following
SystemVerilog expression sizing/signing for the fragment F.  Shares no code with vsc.model.

Expressions (JSON lists):
  ["f", path]  ["it", var, *attrs]  ["idx", var]  ["lit", v]  ["ulit", v, w]  ["slit", v, w]  ["enum", E, member]
  [op, l, r] for op in == != < <= > >= + - * / % & | ^ << >>      ["not", e]
  ["in"|"notin", e, [item...]]  item = ["rng", lo, hi] | expr      ["in_rl"|"notin_rl", e, path]
  ["in_list"|"notin_list", e, path]   ["ps", fexpr, hi, lo]  ["bit", fexpr, i]
  ["size", path] ["sum", path] ["product", path] ["sel", listpath, index expr]   ["dyn", block]  ["dynp", path, block]
Statements:
  ["e", expr] ["soft", expr] ["if", [[cond, stmts]...], else|None] ["implies", cond, stmts]
  ["unique", [expr | ["list", path]...]] ["unique_vec", [path...]] ["foreach", path, var, stmts]
  ["dist", expr, [[item, weight]...]] ["order", [paths], [paths]]
"""
import z3
from . import prog as P

CMP = P.CMP
ARI = P.ARI


def vname(path):
    return "/".join(str(p) for p in path)


class Env(object):
    """world: shadow object holding every top-level thing; owner: absolute path of the object the code is written in"""
    def __init__(self, pr, world, owner=(), itvars=None, perturb=None):
        self.prog = pr
        self.world = world
        self.owner = tuple(owner)
        self.itvars = dict(itvars or {})
        self.perturb = perturb     # canary: deliberately wrong R
        self.vars = {}             # name -> z3 var (shared dict passed around)
        self.oob = {}
        self.dist_log = []         # (lhs leaf name | None, [weight values], guarded?) per dist statement instance
        self.order_log = []        # ([leaf names before], [leaf names after]) per active solve_order directive
        self.notes = {}            # shared remarks, e.g. "soft_in_composed_dyn": softs of a dynamic block used as a Boolean operand

    def child(self, owner=None, itvars=None):
        e = Env(self.prog, self.world, self.owner if owner is None else owner,
                self.itvars if itvars is None else itvars, self.perturb)
        e.vars = self.vars
        e.oob = self.oob
        e.dist_log = self.dist_log
        e.order_log = self.order_log
        e.notes = self.notes
        return e

    # ---- path resolution
    def abspath(self, path):
        out = list(self.owner)
        for p in path:
            if isinstance(p, list) and p[0] == "itv":
                lp, i = self.itvars[p[1]]
                out = list(lp) + [i]
                continue
            if isinstance(p, list) and p[0] == "idx":
                i = self.itvars[p[1]][1] + (p[2] if len(p) > 2 else 0)
                if i < 0:
                    # Python list semantics of l[i-1] at i == 0 (such references sit under an index guard)
                    try:
                        i += len(P.get_node(self.world, tuple(out))["elems"])
                    except Exception:
                        pass
                out.append(i)
            else:
                out.append(p)
        return tuple(out)

    def node(self, abspath):
        return P.get_node(self.world, abspath)

    def leaf_term(self, abspath):
        """(z3 term, width, signed) of a scalar/enum leaf or a list size"""
        if abspath and abspath[-1] == "size":
            lst = self.node(abspath[:-1])
            if lst.get("size_used"):
                return self._var(abspath, 32), 32, False
            return z3.BitVecVal(len(lst["elems"]), 32), 32, False
        try:
            n = self.node(abspath)
        except IndexError:
            # an element reference beyond the list (only meaningful under a guard that is false there): any value
            nm = "oob/" + vname(abspath)
            if nm not in self.oob:
                par = self.node(abspath[:-1]) if not isinstance(abspath[-1], str) else None
                w = par["elem"][1] if par and par["k"] == "l" and par["elem"][0] in ("u", "s") else 32
                self.oob[nm] = (z3.BitVec(nm, w), w, bool(par and par["elem"][0] == "s"))
            return self.oob[nm]
        if n["k"] not in ("s", "e"):
            raise Exception("not a leaf: %s" % (abspath,))
        if n.get("used"):
            return self._var(abspath, n["w"]), n["w"], n["signed"]
        return z3.BitVecVal(n["val"], n["w"]), n["w"], n["signed"]

    def _var(self, abspath, w):
        nm = vname(abspath)
        if nm not in self.vars:
            self.vars[nm] = z3.BitVec(nm, w)
        return self.vars[nm]


def size_guard(env, lp, i):
    """z3 condition 'element i of the list at absolute path lp exists' (True for fixed-size lists)"""
    lst = env.node(lp)
    if lst.get("size_used"):
        sz, _, _ = env.leaf_term(tuple(lp) + ("size",))
        return z3.ULT(z3.BitVecVal(i, 32), sz)
    return z3.BoolVal(True)


def ext(t, w, signed):
    d = w - t.size()
    if d <= 0:
        return t
    return z3.SignExt(d, t) if signed else z3.ZeroExt(d, t)


def b2v(b):
    return z3.If(b, z3.BitVecVal(1, 1), z3.BitVecVal(0, 1))


def _leafpath(e, env):
    """absolute path for a field-like expression"""
    if e[0] == "f":
        return env.abspath(e[1])
    if e[0] == "it":
        lp, i = env.itvars[e[1]]
        return tuple(lp) + (i,) + tuple(e[2:])
    raise Exception("not a field expression: %s" % (e,))


def ty(e, env):
    k = e[0]
    if k in ("f", "it"):
        _, w, s = env.leaf_term(_leafpath(e, env))
        return w, s
    if k == "idx":
        return 32, True
    if k == "lit":
        return max(32, e[1].bit_length() + 1), True        # a Python int: signed, 32 bits unless the value needs more
    if k == "ulit":
        return e[2], False
    if k == "slit":
        return e[2], True
    if k == "enum":
        return 32, True
    if k in CMP or k in ("in", "notin", "in_rl", "notin_rl", "in_list", "notin_list", "dyn", "dynp"):
        return 1, False
    if k == "not":
        return ty(e[1], env)
    if k == "ps":
        return e[2] - e[3] + 1, False
    if k == "bit":
        return 1, False
    if k == "size":
        return 32, False
    if k == "sel":
        lst = env.node(env.abspath(e[1]))
        return lst["elem"][1], lst["elem"][0] == "s"
    if k == "sum":
        lst = env.node(env.abspath(e[1]))
        n = len(lst["elems"])
        ew = lst["elem"][1]
        return ew + max(0, (n - 1)).bit_length(), lst["elem"][0] == "s"
    if k == "product":
        lst = env.node(env.abspath(e[1]))
        return 64, lst["elem"][0] == "s"
    lw, ls = ty(e[1], env)
    rw, rs = ty(e[2], env)
    return max(lw, rw), (ls and rs)


def enum_val(env, e):
    for m, v in env.prog["enums"][e[1]]:
        if m == e[2]:
            return v
    raise KeyError(e)


def in_items_expr(lhs, items):
    acc = None
    for it in items:
        if it[0] == "rng":
            t = ["&", [">=", lhs, it[1]], ["<=", lhs, it[2]]]
        else:
            t = ["==", lhs, it]
        acc = t if acc is None else ["|", acc, t]
    return acc


def ev(e, env, ctx=0):
    """z3 bit-vector of width max(ctx, own width) (comparisons etc.: width 1)"""
    k = e[0]
    if k in ("f", "it"):
        t, w, s = env.leaf_term(_leafpath(e, env))
        return t
    if k == "idx":
        return z3.BitVecVal(env.itvars[e[1]][1], max(32, ctx))
    if k == "lit":
        return z3.BitVecVal(e[1], max(32, e[1].bit_length() + 1, ctx))
    if k in ("ulit", "slit"):
        return z3.BitVecVal(e[1], max(e[2], ctx))
    if k == "enum":
        return z3.BitVecVal(enum_val(env, e), max(32, ctx))
    if k == "ps":
        return z3.Extract(e[2], e[3], ev(e[1], env))
    if k == "bit":
        return z3.Extract(e[2], e[2], ev(e[1], env))
    if k == "size":
        t, w, s = env.leaf_term(env.abspath(e[1]) + ("size",))
        return t
    if k == "sel":
        # l[<index expression over random fields>]: the element the index selects in the SAME solution.  The families keep the index
        # inside the list by its type (unsigned, 2**width <= len), so no out-of-range case exists
        lp = env.abspath(e[1])
        lst = env.node(lp)
        iw, isg = ty(e[2], env)
        if isg or lst.get("size_used") or (1 << iw) > len(lst["elems"]):
            raise Exception("sel: index may leave the list (outside the reference)")
        it = ev(e[2], env)
        acc = None
        for i in reversed(range(len(lst["elems"]))):
            t, ew, es = env.leaf_term(lp + (i,))
            acc = t if acc is None else z3.If(it == z3.BitVecVal(i, it.size()), t, acc)
        return acc
    if k == "not":
        w, s = ty(e[1], env)
        return ~ev(e[1], env, ctx)
    if k in ("in", "notin"):
        x = in_items_expr(e[1], e[2])
        r = truth(x, env) if x is not None else z3.BoolVal(False)      # nothing is a member of an empty collection
        return b2v(r if k == "in" else z3.Not(r))
    if k in ("in_rl", "notin_rl"):
        rl = env.node(env.abspath(e[2]))
        x = in_items_expr(e[1], rl["items"])
        r = truth(x, env) if x is not None else z3.BoolVal(False)
        return b2v(r if k == "in_rl" else z3.Not(r))
    if k in ("in_list", "notin_list"):
        lp = env.abspath(e[2])
        lst = env.node(lp)
        terms = []
        for i in range(len(lst["elems"])):
            terms.append(z3.And(size_guard(env, lp, i), truth(["==", e[1], ["f", list(e[2]) + [i]]], env)))
        r = z3.Or(*terms) if terms else z3.BoolVal(False)
        return b2v(r if k == "in_list" else z3.Not(r))
    if k == "sum":
        lp = env.abspath(e[1])
        lst = env.node(lp)
        w, s = ty(e, env)
        W = max(w, ctx)
        acc = z3.BitVecVal(0, W)
        for i in range(len(lst["elems"])):
            t, ew, es = env.leaf_term(lp + (i,))
            acc = acc + z3.If(size_guard(env, lp, i), ext(t, W, es and s), z3.BitVecVal(0, W))
        return acc
    if k == "product":
        lp = env.abspath(e[1])
        lst = env.node(lp)
        w, s = ty(e, env)
        W = max(w, ctx)
        acc = z3.BitVecVal(1 if lst["elems"] else 0, W)
        for i in range(len(lst["elems"])):
            t, ew, es = env.leaf_term(lp + (i,))
            acc = acc * z3.If(size_guard(env, lp, i), ext(t, W, es and s), z3.BitVecVal(1, W))
        if lst.get("size_used"):
            sz, _, _ = env.leaf_term(tuple(lp) + ("size",))
            acc = z3.If(sz == 0, z3.BitVecVal(0, W), acc)
        return acc
    if k in ("dyn", "dynp"):
        # a dynamic block used as an operand of a Boolean expression: its hard meaning; what happens to soft statements inside it is
        # not defined by the property (noted, so that soft comparisons are skipped for such calls)
        owner = env.owner if k == "dyn" else env.abspath(e[1])
        tmp = []
        f = block_formula(env, owner, e[1] if k == "dyn" else e[2], dynamic=True, softs=tmp)
        if tmp:
            env.notes["soft_in_composed_dyn"] = True
        return b2v(f)
    # binary
    lw, ls = ty(e[1], env)
    rw, rs = ty(e[2], env)
    sg = ls and rs
    if k in CMP:
        cw = max(lw, rw)
    else:
        cw = max(lw, rw, ctx)
    l = ext(ev(e[1], env, cw), cw, sg)
    r = ext(ev(e[2], env, cw), cw, sg)
    if env.perturb == "flip_lt_le":
        k = {"<": "<=", "<=": "<"}.get(k, k)
    if env.perturb == "unsigned_cmp":
        sg_c = False
    else:
        sg_c = sg
    if k == "==": return b2v(l == r)
    if k == "!=": return b2v(l != r)
    if k == "<": return b2v(l < r if sg_c else z3.ULT(l, r))
    if k == "<=": return b2v(l <= r if sg_c else z3.ULE(l, r))
    if k == ">": return b2v(l > r if sg_c else z3.UGT(l, r))
    if k == ">=": return b2v(l >= r if sg_c else z3.UGE(l, r))
    if k == "+": return l + r
    if k == "-": return l - r
    if k == "*": return l * r
    if k == "&": return l & r
    if k == "|": return l | r
    if k == "^": return l ^ r
    if k == "/": return (l / r) if sg else z3.UDiv(l, r)
    if k == "%": return z3.SRem(l, r) if sg else z3.URem(l, r)
    if k == "<<": return l << r
    if k == ">>": return z3.LShR(l, r)
    raise Exception("ev: " + str(e))


def truth(e, env):
    v = ev(e, env)
    if v.size() > 1:
        return v != 0
    return v == z3.BitVecVal(1, 1)


# ------------------------------------------------------------------------------------------ statements
def stmts_formula(stmts, env, softs=None, guards=()):
    """conjunction of the hard meaning of a statement list.  softs: list collecting (guard formula, soft formula, tag)"""
    acc = []
    for si, s in enumerate(stmts):
        k = s[0]
        if k == "e" and s[1][0] in ("dyn", "dynp"):
            # a plain reference: the block's statements become part of the call, soft ones included (under the enclosing guards)
            owner = env.owner if s[1][0] == "dyn" else env.abspath(s[1][1])
            acc.append(block_formula(env, owner, s[1][1] if s[1][0] == "dyn" else s[1][2], dynamic=True, softs=softs, guards=guards))
        elif k == "e":
            acc.append(truth(s[1], env))
        elif k == "soft":
            if softs is not None:
                g = z3.And(*guards) if guards else z3.BoolVal(True)
                softs.append((g, truth(s[1], env), s))
        elif k == "if":
            # if c1: b1 elif c2: b2 ... else: e
            res = None
            neg = []
            parts = []
            for cond, body in s[1]:
                c = truth(cond, env)
                g = guards + tuple(neg) + (c,)
                parts.append((c, stmts_formula(body, env, softs, g)))
                neg.append(z3.Not(c))
            els = stmts_formula(s[2], env, softs, guards + tuple(neg)) if s[2] is not None else z3.BoolVal(True)
            res = els
            for c, b in reversed(parts):
                res = z3.If(c, b, res)
            acc.append(res)
        elif k == "implies":
            c = truth(s[1], env)
            acc.append(z3.Implies(c, stmts_formula(s[2], env, softs, guards + (c,))))
        elif k == "unique":
            terms = []
            for a in s[1]:
                if a[0] == "list":
                    lp = env.abspath(a[1])
                    lst = env.node(lp)
                    for i in range(len(lst["elems"])):
                        terms.append((["f", list(a[1]) + [i]], size_guard(env, lp, i)))
                else:
                    terms.append((a, z3.BoolVal(True)))
            for i in range(len(terms)):
                for j in range(i + 1, len(terms)):
                    acc.append(z3.Implies(z3.And(terms[i][1], terms[j][1]), truth(["!=", terms[i][0], terms[j][0]], env)))
        elif k == "unique_vec":
            lists = [env.node(env.abspath(p)) for p in s[1]]
            for i in range(len(s[1])):
                for j in range(i + 1, len(s[1])):
                    n = min(len(lists[i]["elems"]), len(lists[j]["elems"]))
                    diffs = [truth(["!=", ["f", list(s[1][i]) + [x]], ["f", list(s[1][j]) + [x]]], env) for x in range(n)]
                    if len(lists[i]["elems"]) != len(lists[j]["elems"]):
                        continue
                    acc.append(z3.Or(*diffs) if diffs else z3.BoolVal(False))
        elif k == "foreach":
            lp = env.abspath(s[1])
            lst = env.node(lp)
            for i in range(len(lst["elems"])):
                iv = dict(env.itvars)
                iv[s[2]] = (lp, i)
                g = size_guard(env, lp, i)
                acc.append(z3.Implies(g, stmts_formula(s[3], env.child(itvars=iv), softs, guards + ((g,) if lst.get("size_used") else ()))))
        elif k == "dist":
            terms = []
            zero = []
            wvals = []
            for item, w in s[2]:
                if isinstance(w, list):
                    # weights are expressions over non-random fields (concrete per run): evaluated at call time
                    wv = z3.simplify(ev(w, env, 64))
                    wnz = wv.as_long() != 0
                    wvals.append(wv.as_long())
                else:
                    wnz = w != 0
                    wvals.append(w)
                if item[0] == "rng":
                    m = z3.And(truth([">=", s[1], item[1]], env), truth(["<=", s[1], item[2]], env))
                else:
                    m = truth(["==", s[1], item], env)
                (terms if wnz else zero).append(m)
            try:
                env.dist_log.append((vname(_leafpath(s[1], env)) if s[1][0] in ("f", "it") else None, wvals, bool(guards)))
            except Exception:
                env.dist_log.append((None, wvals, True))
            # listed with a non-zero weight, and not named by any zero-weight entry ("zero weight means never")
            acc.append(z3.And(z3.Or(*terms) if terms else z3.BoolVal(False), z3.Not(z3.Or(*zero)) if zero else z3.BoolVal(True)))
        elif k == "order":
            def names(paths):
                out = []
                for pth in paths:
                    ap = env.abspath(pth)
                    try:
                        nd = env.node(ap)
                    except Exception:
                        nd = None
                    if isinstance(nd, dict) and "elems" in nd:
                        out.extend(vname(tuple(ap) + (i,)) for i in range(len(nd["elems"])))
                    else:
                        out.append(vname(ap))
                return out
            try:
                env.order_log.append((names(s[1]), names(s[2])))
            except Exception:
                pass
        elif k == "raise":
            pass
        else:
            raise Exception("stmt: " + str(s))
    return z3.And(*acc) if acc else z3.BoolVal(True)


def block_formula(env, owner_abspath, bname, dynamic=False, softs=None, guards=()):
    obj = env.node(owner_abspath)
    blocks = P.all_blocks(env.prog, obj["cls"])
    kind, stmts = blocks[bname]
    return stmts_formula(stmts, env.child(owner=owner_abspath, itvars={}), softs, guards)


def object_formula(env, abspath, softs=None):
    """enabled always-on blocks of the object at abspath and of every sub-object that is random in the call"""
    obj = env.node(abspath)
    acc = []
    if not obj.get("used"):
        return z3.BoolVal(True)
    blocks = P.all_blocks(env.prog, obj["cls"])
    for bn in sorted(blocks):
        kind, stmts = blocks[bn]
        if kind != "c" or not obj["cmode"].get(bn, True):
            continue
        acc.append(stmts_formula(stmts, env.child(owner=abspath, itvars={}), softs))
    for fn, ch in obj["fields"].items():
        if ch["k"] == "l" and ch.get("size_used") and ch["elem"][0] == "obj":
            # a random-size list of objects cannot grow beyond the objects the user put in
            sz, _, _ = env.leaf_term(abspath + (fn, "size"))
            acc.append(z3.ULE(sz, z3.BitVecVal(len(ch["elems"]), 32)))
        if ch["k"] == "o":
            acc.append(object_formula(env, abspath + (fn,), softs))
        elif ch["k"] == "l" and ch["elem"][0] == "obj":
            for i in range(len(ch["elems"])):
                acc.append(z3.Implies(size_guard(env, abspath + (fn,), i), object_formula(env, abspath + (fn, i), softs)))
    return z3.And(*acc) if acc else z3.BoolVal(True)


def type_domain(env, only=None):
    """enum-typed random leaves take a declared enumerator (integer leaves: implied by the variable width).
    only: restrict to these variable names"""
    acc = []
    for path, n in P.walk_leaves(env.world):
        if n["k"] == "e" and n.get("used"):
            if only is not None and vname(path) not in only:
                continue
            t, w, s = env.leaf_term(path)
            acc.append(z3.Or(*[t == z3.BitVecVal(v, 32) for m, v in env.prog["enums"][n["enum"]]]))
    return z3.And(*acc) if acc else z3.BoolVal(True)
