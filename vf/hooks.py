"""Property-specific deciders hooked into e1.decide_call (rec carries A, ref, env, instances, softs, subs...)."""
import z3
from . import mirror as M
from . import refsem as R
from . import prog as P


def _add(rec, kind, what, op, oi, **kw):
    d = {"kind": kind, "what": what, "op": oi, "call": op}
    d.update(kw)
    rec["findings"].append(d)


def phases(inst):
    """split a solver trace: indices of first sat and of the swizzle marker"""
    first_sat = None
    swz = None
    for i, t in enumerate(inst.trace):
        if t[0] == "sat" and first_sat is None:
            first_sat = i
        if t[0] == "swizzle" and swz is None:
            swz = i
    return first_sat, swz


def soft_hook(world, spec, oi, op, q, rec):
    """C05: guard handling, maximality, priority (exact greedy reference when the order is fixed by the property)"""
    if rec["exc"] is not None:
        return
    env = rec["env"]
    if env.notes.get("soft_in_composed_dyn"):
        rec["summary"]["soft_compare_skipped"] = "soft statement inside a dynamic block used as a Boolean operand"
        return
    H = env.refc
    rsofts = [z3.Implies(g, s) for g, s, st in rec["softs"]]
    subs = rec["subs"]
    asserted = []
    allsoft = {}
    for inst in rec["instances"]:
        fs, sw = phases(inst)
        if fs is None:
            continue
        end = sw if sw is not None else len(inst.trace)
        hard_ids = set(id(t[1]) for t in inst.trace[:fs] if t[0] in ("assume", "assert"))
        for t in inst.trace[fs + 1:end]:
            if t[0] in ("assume", "assert") and id(t[1]) in hard_ids:
                continue      # the hard nodes are asserted right after the first check
            if t[0] == "assume":
                allsoft[id(t[1])] = t[1]
            elif t[0] == "assert":
                asserted.append(t[1])
                allsoft[id(t[1])] = t[1]

    def sub(n):
        z = M.boolz(n) if (z3.is_bool(n.z) or n.z.size() == 1) else (n.z != 0)
        return z3.substitute(z, *subs) if subs else z
    A = z3.And(*[sub(n) for n in asserted]) if asserted else z3.BoolVal(True)
    L = [sub(n) for n in allsoft.values()]
    rec["summary"]["n_soft_lib"] = len(L)
    rec["summary"]["n_soft_ref"] = len(rsofts)
    rec["summary"]["n_soft_asserted"] = len(asserted)
    rh, _ = q.check(H)
    if rh != "sat":
        return
    # 1. guard handling: every soft node the library tried is (under the hard constraints) one of the reference softs
    #    `guards => soft`, and every reference soft was tried
    for li, lz in enumerate(L):
        ok = False
        for rz in rsofts:
            r, _ = q.check(H, z3.Xor(lz, rz))
            if r == "unsat":
                ok = True
                break
        if not ok:
            _add(rec, "soft_guard", "a soft constraint was lowered to a formula that matches no reference soft constraint "
                 "(guards => soft): %s" % (str(z3.simplify(lz))[:200]), op, oi)
    for ri, rz in enumerate(rsofts):
        ok = False
        for lz in L:
            r, _ = q.check(H, z3.Xor(lz, rz))
            if r == "unsat":
                ok = True
                break
        if not ok:
            # a soft that the hard constraints already decide either way need not be visible
            r1, _ = q.check(H, rz)
            r2, _ = q.check(H, z3.Not(rz))
            if r1 == "sat" and r2 == "sat":
                _add(rec, "soft_missing", "reference soft constraint #%d %s was never handed to the solver" % (ri, rec["softs"][ri][2]), op, oi)
    # 2. maximality of the asserted set
    for ri, rz in enumerate(rsofts):
        r, _ = q.check(H, A, rz)
        if r == "sat":
            r2, m2 = q.check(H, A, z3.Not(rz))
            if r2 == "sat":
                _add(rec, "soft_not_maximal", "soft constraint #%d %s is consistent with the hard constraints and the honoured soft "
                     "constraints, yet it is not enforced" % (ri, rec["softs"][ri][2]), op, oi)
    # 3. priority: exact greedy reference (later stated = higher priority; inline after class)
    if spec.get("soft_order_fixed", True):
        E = []
        for rz in reversed(rsofts):
            r, _ = q.check(H, *(E + [rz]))
            if r == "sat":
                E.append(rz)
        Ez = z3.And(*E) if E else z3.BoolVal(True)
        r1, m1 = q.check(H, A, z3.Not(Ez))
        r2, m2 = q.check(H, Ez, z3.Not(A))
        if r1 == "sat" or r2 == "sat":
            _add(rec, "soft_priority", "the set of soft constraints honoured differs from the greedy-by-priority reference "
                 "(later in a block wins, inline over class)", op, oi,
                 expected_kept=[str(rec["softs"][len(rsofts) - 1 - i][2]) for i, _ in enumerate(reversed(rsofts)) if any(e is rsofts[len(rsofts) - 1 - i] for e in E)])
    # 4. the outcome actually returned: no violated soft could have been honoured with hard + satisfied softs
    after = rec["summary"].get("after") or {}
    vals = []
    for nm, v in env.vars.items():
        if nm in after and isinstance(after[nm], int):
            vals.append((v, z3.BitVecVal(after[nm], v.size())))
    sat_s, vio_s = [], []
    for ri, rz in enumerate(rsofts):
        g = z3.simplify(z3.substitute(rz, *vals)) if vals else z3.simplify(rz)
        if z3.is_true(g):
            sat_s.append(rz)
        elif z3.is_false(g):
            vio_s.append((ri, rz))
    for ri, rz in vio_s:
        r, _ = q.check(H, *(sat_s + [rz]))
        if r == "sat":
            _add(rec, "soft_outcome", "returned values violate soft #%d %s although it could have been honoured together with the "
                 "hard constraints and all satisfied soft constraints" % (ri, rec["softs"][ri][2]), op, oi, returned=after)


def _in_domain(x, signed, ranges):
    w = x.size()
    lo_t = -(1 << (w - 1)) if signed else 0
    hi_t = (1 << (w - 1)) - 1 if signed else (1 << w) - 1
    terms = []
    for lo, hi in ranges:
        if lo > hi:
            continue
        lo2, hi2 = max(lo, lo_t), min(hi, hi_t)
        if lo2 > hi2:
            continue
        a, b = z3.BitVecVal(lo2, w), z3.BitVecVal(hi2, w)
        terms.append(z3.And(x >= a, x <= b) if signed else z3.And(z3.UGE(x, a), z3.ULE(x, b)))
    return z3.Or(*terms) if terms else z3.BoolVal(False)


def bounds_hook(world, spec, oi, op, q, rec):
    """C14: the inferred domain of every random field contains every value the field takes in some solution"""
    if rec["exc"] is not None:
        return
    from . import e1
    env = rec["env"]
    ref = rec["ref"]
    fm_path = rec["fm_path"]
    seen = set()
    nchecked = 0

    def check_field(f, ranges, where):
        nonlocal nchecked
        path = fm_path.get(id(f))
        if path is None:
            return
        nm = R.vname(path)
        if nm in seen or nm not in env.vars:
            return
        seen.add(nm)
        node = None
        try:
            node = P.get_node(world.shadow, path) if path[-1] != "size" else None
        except Exception:
            pass
        signed = bool(node and node.get("signed"))
        x = env.vars[nm]
        nchecked += 1
        r, m = q.check(ref, z3.Not(_in_domain(x, signed, ranges)))
        if r == "sat":
            v = m.eval(x, model_completion=True).as_long()
            if signed and v >> (x.size() - 1):
                v -= 1 << x.size()
            _add(rec, "bound_excludes", "the inferred value range %s of %s (%s) excludes the feasible value %d" % (ranges[:6], nm, where, v),
                 op, oi, field=nm, value=v, domain=ranges[:8], witness=e1.model_values(m, env.vars))
    for inst in rec["instances"]:
        for t in inst.trace:
            if t[0] == "swizzle":
                for fid, (f, ranges) in t[2].items():
                    if getattr(f, "is_used_rand", False) or True:
                        check_field(f, ranges, "rand set")
    for call in e1._state["calls"]:
        for f, ranges in call["unconstrained"]:
            if ranges is None:
                continue
            path = fm_path.get(id(f))
            if path is None:
                continue
            nm = R.vname(path)
            if nm not in env.vars:
                continue        # not random in this call
            # a field no constraint mentions ranges over its whole type (enum: all enumerators)
            check_field(f, ranges, "unconstrained")
    rec["summary"]["bounds_checked"] = nchecked


def prepost_hook(world, spec, oi, op, q, rec):
    """C17: pre_randomize / post_randomize exactly once on every object that is random in the call, before the first solver
    activity / after the last; post sees final values"""
    events = list(world.ns.get("EVENTS", []))
    total = sum(len(i.trace) for i in rec["instances"])
    # objects with hooks, by identity
    objs = {}

    def walk(node, path):
        if node["k"] == "o":
            cs = P.cls_spec(world.prog, node["cls"]) if node.get("cls") else None
            if cs is not None and (cs.get("pre_randomize") is not None or cs.get("post_randomize") is not None):
                try:
                    objs[id(world.real(path))] = (path, node)
                except Exception:
                    pass
            for fn, ch in node["fields"].items():
                walk(ch, tuple(path) + (fn,))
        elif node["k"] == "l":
            for i, ch in enumerate(node["elems"]):
                walk(ch, tuple(path) + (i,))
    walk(world.shadow, ())
    # objects that were elements of the tree when the call started but were dropped by a smaller solved list size: they received
    # pre_randomize as list elements; the property wants post_randomize on the same objects
    for oid, (path, node) in (getattr(world, "pre_call_objs", None) or {}).items():
        if oid in objs:
            continue
        cs = P.cls_spec(world.prog, node["cls"]) if node.get("cls") else None
        if cs is not None and (cs.get("pre_randomize") is not None or cs.get("post_randomize") is not None):
            objs[oid] = (path, node)
    ok_call = rec["exc"] is None
    counts = {}
    for ev in events:
        hook, oid, snap, now = ev
        counts[(oid, hook)] = counts.get((oid, hook), 0) + 1
        if oid not in objs:
            _add(rec, "hook_count", "%s invoked on an object outside the randomized tree" % hook, op, oi)
            continue
        path, node = objs[oid]
        if hook == "pre_randomize" and now != 0:
            _add(rec, "hook_order", "pre_randomize of %s ran after solver activity had started (%d trace events)" % (R.vname(path), now), op, oi)
        if hook == "post_randomize":
            if now != total:
                _add(rec, "hook_order", "post_randomize of %s ran before the solver was finished (%d of %d trace events)" % (R.vname(path), now, total), op, oi)
            after = rec["summary"].get("after") or {}
            for fname, v in snap:
                k = R.vname(tuple(path) + (fname,))
                if ok_call and k in after and isinstance(after[k], int) and after[k] != v:
                    _add(rec, "hook_order", "post_randomize of %s saw %s=%d but the final value is %d" % (R.vname(path), fname, v, after[k]), op, oi)
    for oid, (path, node) in objs.items():
        cs = P.cls_spec(world.prog, node["cls"])
        used = bool(node.get("used"))
        for hook in ("pre_randomize", "post_randomize"):
            if cs.get(hook) is None:
                continue
            if hook == "post_randomize" and not ok_call:
                continue
            n = counts.get((oid, hook), 0)
            exp = 1 if used else 0
            if n != exp:
                _add(rec, "hook_count", "%s of %s (random in the call: %s) ran %d time(s), expected %d" % (hook, R.vname(path), used, n, exp), op, oi)
    rec["summary"]["hook_events"] = len(events)


def _term_vars(z):
    out = set()
    todo = [z]
    seen = set()
    while todo:
        t = todo.pop()
        if t.get_id() in seen:
            continue
        seen.add(t.get_id())
        if z3.is_const(t) and t.decl().kind() == z3.Z3_OP_UNINTERPRETED:
            out.add(str(t))
        else:
            todo.extend(t.children())
    return out


def order_hook(world, spec, oi, op, q, rec):
    """C20 (iv): ordered groups are swizzled one after another in the declared order inside one solver context; a swizzle
    node is kept iff the whole system stayed SAT with it; the final check is SAT"""
    if rec["exc"] is not None:
        return
    from . import e1
    n_ordered = 0
    for inst in rec["instances"]:
        fs, sw = phases(inst)
        if sw is None:
            continue
        marker = inst.trace[sw]
        order = marker[3]
        var2fm = {}
        for t in inst.trace:
            if t[0] == "var":
                ent = e1._state["node2fm"].get(id(t[1]))
                if ent is not None:
                    var2fm[str(t[1].z)] = ent[1]
        group_of = {}
        if order is not None:
            n_ordered += 1
            for gi, grp in enumerate(order):
                for f in grp:
                    group_of[id(f)] = gi
        # the groups respect the program's directives (reference: the solve_order statements of the enabled blocks, read
        # from the program text - not the library's own dependency map): 'before' fields sit in an earlier group
        name_of = {}
        for v, fm in var2fm.items():
            pth = rec["fm_path"].get(id(fm))
            if pth is not None:
                name_of[R.vname(pth)] = fm
        seen_pairs = set()
        for befores, afters in rec["env"].order_log:
            for bn in befores:
                for an in afters:
                    if bn == an or (bn, an) in seen_pairs or bn not in name_of or an not in name_of:
                        continue
                    seen_pairs.add((bn, an))
                    rec["summary"]["order_pairs_checked"] = rec["summary"].get("order_pairs_checked", 0) + 1
                    gb = group_of.get(id(name_of[bn]))
                    ga = group_of.get(id(name_of[an]))
                    if order is None or gb is None or ga is None or not gb < ga:
                        _add(rec, "order_violation", "solve_order(%s, %s): both are solver variables of one rand set, but the groups randomised "
                             "in sequence are %s (group of %s: %s, of %s: %s)" % (bn, an, None if order is None else [[getattr(f, "name", "?") for f in g] for g in order],
                                                                                 bn, gb, an, ga), op, oi)
        # every random field of the rand set gets a randomising target from some group: a field outside all groups would be left to
        # the solver's default model (its feasible values are never produced).  Observed from the trace: solver variables of
        # the instance (domain not a single value) that no randomising constraint tried after the swizzle marker mentions, while
        # fewer than max_swizzle (4) fields were randomised in every group
        if order is not None:
            tried = set()
            for t in inst.trace[sw + 1:]:
                if t[0] == "assume":
                    tried |= set(v for v in _term_vars(t[1].z) if v in var2fm)
            dom = marker[2]
            for v, fm in var2fm.items():
                ent = dom.get(id(fm))
                multi = ent is not None and (len(ent[1]) > 1 or (len(ent[1]) == 1 and ent[1][0][0] != ent[1][0][1]))
                if multi and id(fm) not in group_of and v not in tried and all(len(g) <= 4 for g in order):
                    _add(rec, "not_randomised", "field %s is a solver variable of an ordered rand set but belongs to none of the groups randomised in "
                         "sequence %s: its value is left to the solver's default model" % (
                             R.vname(rec["fm_path"].get(id(fm), ("?",))), [[getattr(f, "name", "?") for f in g] for g in order]), op, oi)
        # ... and an ordering between two fields exists only if an enabled block (or the call) states it: transitive closure of
        # the active directives
        if order is not None:
            succ = {}
            for befores, afters in rec["env"].order_log:
                for bn in befores:
                    for an in afters:
                        succ.setdefault(bn, set()).add(an)
            named = set(succ) | set(x for v in succ.values() for x in v)
            for gi, grp in enumerate(order):
                for f in grp:
                    pth = rec["fm_path"].get(id(f))
                    nm = R.vname(pth) if pth is not None else None
                    if nm is not None and nm not in named:
                        _add(rec, "order_violation", "field %s is placed in ordered group %d %s although no enabled solve_order statement names it (active "
                             "directives: %s)" % (nm, gi, [[getattr(x, "name", "?") for x in g] for g in order], rec["env"].order_log), op, oi)
        last_group = -1
        pending = None
        last_sat = None
        events = inst.trace[sw + 1:]
        for i, t in enumerate(events):
            if t[0] == "assume":
                pending = t[1]
                vs = _term_vars(t[1].z)
                gs = set(group_of.get(id(var2fm[v]), None) for v in vs if v in var2fm)
                gs.discard(None)
                if order is not None and gs:
                    g = min(gs)
                    if g < last_group:
                        _add(rec, "order_violation", "a randomising constraint of ordered group %d was tried after group %d" % (g, last_group), op, oi)
                    last_group = max(last_group, max(gs))
            elif t[0] == "sat":
                last_sat = (t[1] == M.MirrorBoolector.SAT, set(id(n) for n in t[2]))
            elif t[0] == "assert":
                if last_sat is None or not last_sat[0] or id(t[1]) not in last_sat[1]:
                    _add(rec, "order_violation", "a randomising constraint was asserted without a preceding SAT check that included it", op, oi)
        sats = [t for t in inst.trace if t[0] == "sat"]
        if sats and sats[-1][1] != M.MirrorBoolector.SAT:
            _add(rec, "order_violation", "the final solver check of a successful call was not SAT", op, oi)
        if order is not None:
            # every field named in the ordering that is random appears in exactly one group, groups respect the directives
            rec["summary"].setdefault("order_groups", []).append([[getattr(f, "name", "?") for f in g] for g in order])
    rec["summary"]["ordered_randsets"] = n_ordered


def dist_hook(world, spec, oi, op, q, rec):
    """C15: the (weight, index) list the real DistConstraintBuilder installs for the call - the list next_target_range selects
    from - holds exactly the non-zero weights evaluated on the non-random fields' values at the time of the call (the
    selection law over that list is decided symbolically in checks/c15.py (b))."""
    from . import e1
    from vsc.visitors.expr2field_visitor import Expr2FieldVisitor
    scopes = list((e1._state.get("dist_scopes") or {}).values())
    exp = {}
    for nm, wvals, guarded in rec["env"].dist_log:
        if nm is not None:
            exp.setdefault(nm, set()).add(tuple(wvals))
    n = 0
    for sc, wl, tot in scopes:
        try:
            fm = Expr2FieldVisitor().field(sc.dist_c.lhs)
            path = rec["fm_path"].get(id(fm))
        except Exception:
            path = None
        if path is None:
            continue
        nm = R.vname(path)
        if nm not in exp:
            continue
        n += 1
        ok = False
        for wvals in exp[nm]:
            ref = sorted([(w, i) for i, w in enumerate(wvals) if w > 0], key=lambda e: e[0])
            if [tuple(e) for e in wl] == ref and tot == sum(wvals):
                ok = True
        if not ok:
            _add(rec, "dist_weights", "dist on %s: the selection list installed for this call is %s (total %s) but the weights evaluate to %s now"
                 % (nm, wl, tot, sorted(exp[nm])), op, oi)
    rec["summary"]["dist_lists_checked"] = n
    # the rand set that randomises a dist field knows about the dist (otherwise the field is randomised like any other field and
    # the weights are ignored)
    for inst in rec["instances"]:
        fs, sw = phases(inst)
        if sw is None:
            continue
        rs = inst.trace[sw][1]
        try:
            fields = set(id(f) for f in rs.all_fields())
        except Exception:
            continue
        for sc, wl, tot in scopes:
            try:
                fm = Expr2FieldVisitor().field(sc.dist_c.lhs)
            except Exception:
                continue
            if id(fm) in fields and not any(sc is d for d in rs.dist_field_m.get(fm, [])):
                _add(rec, "dist_weights", "dist on %s: the rand set that randomises the field does not hold the dist (weights ignored); it knows %s" % (
                    R.vname(rec["fm_path"].get(id(fm), ("?",))), [getattr(k, "name", "?") for k in rs.dist_field_m.keys()]), op, oi)
