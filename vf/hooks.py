"""Property-specific deciders hooked into e1.decide_call (rec carries A, ref, env, instances, softs, subs...)."""
import z3
from . import mirror as M
from . import refsem as R
from . import prog as P


def _add(rec, kind, what, op, oi, **kw):
    d = {"kind": kind, "what": what, "op": oi, "call": op}
    d.update(kw)
    rec["findings"].append(d)


def phases(inst):
    """split a solver trace: indices of first sat and of the swizzle marker"""
    first_sat = None
    swz = None
    for i, t in enumerate(inst.trace):
        if t[0] == "sat" and first_sat is None:
            first_sat = i
        if t[0] == "swizzle" and swz is None:
            swz = i
    return first_sat, swz


def soft_hook(world, spec, oi, op, q, rec):
    """C05: guard handling, maximality, priority (exact greedy reference when the order is fixed by the property)"""
    if rec["exc"] is not None:
        return
    env = rec["env"]
    H = env.refc
    rsofts = [z3.Implies(g, s) for g, s, st in rec["softs"]]
    subs = rec["subs"]
    asserted = []
    allsoft = {}
    for inst in rec["instances"]:
        fs, sw = phases(inst)
        if fs is None:
            continue
        end = sw if sw is not None else len(inst.trace)
        hard_ids = set(id(t[1]) for t in inst.trace[:fs] if t[0] in ("assume", "assert"))
        for t in inst.trace[fs + 1:end]:
            if t[0] in ("assume", "assert") and id(t[1]) in hard_ids:
                continue      # the hard nodes are asserted right after the first check
            if t[0] == "assume":
                allsoft[id(t[1])] = t[1]
            elif t[0] == "assert":
                asserted.append(t[1])
                allsoft[id(t[1])] = t[1]

    def sub(n):
        z = M.boolz(n) if (z3.is_bool(n.z) or n.z.size() == 1) else (n.z != 0)
        return z3.substitute(z, *subs) if subs else z
    A = z3.And(*[sub(n) for n in asserted]) if asserted else z3.BoolVal(True)
    L = [sub(n) for n in allsoft.values()]
    rec["summary"]["n_soft_lib"] = len(L)
    rec["summary"]["n_soft_ref"] = len(rsofts)
    rec["summary"]["n_soft_asserted"] = len(asserted)
    rh, _ = q.check(H)
    if rh != "sat":
        return
    # 1. guard handling: every soft node the library tried is (under the hard constraints) one of the reference softs
    #    `guards => soft`, and every reference soft was tried
    for li, lz in enumerate(L):
        ok = False
        for rz in rsofts:
            r, _ = q.check(H, z3.Xor(lz, rz))
            if r == "unsat":
                ok = True
                break
        if not ok:
            _add(rec, "soft_guard", "a soft constraint was lowered to a formula that matches no reference soft constraint "
                 "(guards => soft): %s" % (str(z3.simplify(lz))[:200]), op, oi)
    for ri, rz in enumerate(rsofts):
        ok = False
        for lz in L:
            r, _ = q.check(H, z3.Xor(lz, rz))
            if r == "unsat":
                ok = True
                break
        if not ok:
            # a soft that the hard constraints already decide either way need not be visible
            r1, _ = q.check(H, rz)
            r2, _ = q.check(H, z3.Not(rz))
            if r1 == "sat" and r2 == "sat":
                _add(rec, "soft_missing", "reference soft constraint #%d %s was never handed to the solver" % (ri, rec["softs"][ri][2]), op, oi)
    # 2. maximality of the asserted set
    for ri, rz in enumerate(rsofts):
        r, _ = q.check(H, A, rz)
        if r == "sat":
            r2, m2 = q.check(H, A, z3.Not(rz))
            if r2 == "sat":
                _add(rec, "soft_not_maximal", "soft constraint #%d %s is consistent with the hard constraints and the honoured soft "
                     "constraints, yet it is not enforced" % (ri, rec["softs"][ri][2]), op, oi)
    # 3. priority: exact greedy reference (later stated = higher priority; inline after class)
    if spec.get("soft_order_fixed", True):
        E = []
        for rz in reversed(rsofts):
            r, _ = q.check(H, *(E + [rz]))
            if r == "sat":
                E.append(rz)
        Ez = z3.And(*E) if E else z3.BoolVal(True)
        r1, m1 = q.check(H, A, z3.Not(Ez))
        r2, m2 = q.check(H, Ez, z3.Not(A))
        if r1 == "sat" or r2 == "sat":
            _add(rec, "soft_priority", "the set of soft constraints honoured differs from the greedy-by-priority reference "
                 "(later in a block wins, inline over class)", op, oi,
                 expected_kept=[str(rec["softs"][len(rsofts) - 1 - i][2]) for i, _ in enumerate(reversed(rsofts)) if any(e is rsofts[len(rsofts) - 1 - i] for e in E)])
    # 4. the outcome actually returned: no violated soft could have been honoured with hard + satisfied softs
    after = rec["summary"].get("after") or {}
    vals = []
    for nm, v in env.vars.items():
        if nm in after and isinstance(after[nm], int):
            vals.append((v, z3.BitVecVal(after[nm], v.size())))
    sat_s, vio_s = [], []
    for ri, rz in enumerate(rsofts):
        g = z3.simplify(z3.substitute(rz, *vals)) if vals else z3.simplify(rz)
        if z3.is_true(g):
            sat_s.append(rz)
        elif z3.is_false(g):
            vio_s.append((ri, rz))
    for ri, rz in vio_s:
        r, _ = q.check(H, *(sat_s + [rz]))
        if r == "sat":
            _add(rec, "soft_outcome", "returned values violate soft #%d %s although it could have been honoured together with the "
                 "hard constraints and all satisfied soft constraints" % (ri, rec["softs"][ri][2]), op, oi, returned=after)
