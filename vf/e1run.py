"""Driver for E1 checks: runs program specs in crash-contained workers (mirror installed there only), replays every
finding through the public API in mirror-free workers, and feeds the Check object."""
import json, hashlib, copy
from .common import parmap, sig_matches

CALL_OPS = ("randomize", "randomize_with", "vsc_randomize", "vsc_randomize_with")

E1_ASSUMPTIONS = [
    "non-random field values are concrete per run (pyvsc evaluates them in Python); each program is run for a finite set of them",
    "the program/history dimension is bounded enumeration (families listed under bounds); the value dimension (all random-field "
    "values) is decided by z3 on the real lowered formula",
    "reference semantics R: SystemVerilog sizing/signing restricted to fragment F (DESIGN.md section 4); constructs outside F are not generated",
    "mirror: each Boolector call is forwarded to a real Boolector and mirrored into z3; every real Sat() verdict is cross-checked "
    "against z3 on the mirrored stack and the values read back are checked against the mirrored assertions (disagreement = harness error)",
    "runtime patch points (no source hooks): vsc.model.randomizer.Boolector, FieldScalarModel.build, "
    "SolveGroupSwizzlerPartsel.swizzle, Randomizer.randomize, ConstraintDistScopeModel.next_target_range (records the installed selection list)",
]


def _work(job):
    spec, opts = job
    import gc
    gc.disable()
    from . import e1
    s = dict(spec)
    if opts:
        s["checks"] = opts
    r = e1.run_program(s)
    # drop unpicklable / bulky things
    for f in r.get("findings", []):
        f.pop("tb", None) if False else None
    return r


def _replay(job):
    spec, finding = job
    import gc
    gc.disable()       # pyboolector objects are sensitive to destruction order; the child exits with os._exit
    from . import e1
    try:
        ok, info = e1.replay_finding(spec, finding)
    except Exception as e:
        import traceback
        return ("error", "%s: %s %s" % (type(e).__name__, e, traceback.format_exc()[-800:]))
    return ("reproduced" if ok else "not_reproduced", info)


NO_PUBLIC_REPLAY = ("trace_t1", "trace_t2", "read_model", "unmapped_var", "soft_guard", "soft_missing", "soft_not_maximal", "soft_priority",
                    "soft_outcome", "bound_excludes", "order_violation", "swizzle_target", "not_idle", "hook_order", "hook_count", "list_facade", "dist_weights", "not_randomised", "model_field_missing")


def run_specs(chk, specs, kinds, opts=None, sig_fn=None, nproc=None, chunk=None, extra_handler=None):
    """kinds: finding kinds that are violations of this check's property.  Other kinds are counted as out-of-scope
    observations.  Returns raw results."""
    jobs = [(s, opts) for s in specs]
    results = parmap(_work, jobs, nproc=nproc, chunk=chunk)
    to_replay = []
    oos = {}
    mir = {"sat_calls": 0, "verdict_checked": 0, "verdict_disagree": 0, "z3_unknown": 0, "model_checked": 0,
           "model_disagree": 0, "disagreements": 0}
    ncalls = 0
    step = max(1, len(specs) // 8)
    for i, (st, r) in enumerate(results):
        spec = specs[i]
        if st != "ok":
            chk.harness_error("worker %s on %s/%s: %s" % (st, spec.get("tag"), spec.get("desc"), str(r)[:600]))
            continue
        chk.programs += 1
        for k in ("unsat", "sat", "unknown"):
            chk.q(k, 0, r["q"].get(k, 0))
        chk.solver_s += r.get("solver_s", 0.0)
        if r.get("mirror"):
            for k in mir:
                mir[k] += r["mirror"].get(k, 0)
            chk.solver_s += r["mirror"].get("z3_s", 0.0)
        if r.get("error"):
            chk.harness_error("program %s/%s: %s %s" % (spec.get("tag"), spec.get("desc"), r["error"], r.get("trace", "")[-600:]))
            continue
        for c in r["calls"]:
            ncalls += 1
            chk.count("%s|%s|%d" % (spec.get("tag"), spec.get("desc"), c.get("op", -1)))
            for qk in ("q1", "q2", "ref_sat"):
                if c.get(qk) == "unknown":
                    chk.note_inconclusive("%s/%s op %s: %s unknown" % (spec.get("tag"), spec.get("desc"), c.get("op"), qk))
        if i % step == 0 and r["calls"]:
            chk.sample({"family": spec.get("tag"), "program": spec.get("desc"), "ops": spec["ops"][:6],
                        "calls": [{k: v for k, v in c.items() if k in ("op", "kind", "ref_sat", "exc", "q1", "q2")} for c in r["calls"][:3]]})
        for f in r["findings"]:
            if f["kind"] == "harness":
                chk.harness_error("%s/%s: %s" % (spec.get("tag"), spec.get("desc"), f["what"][:800]))
            elif f["kind"] in kinds:
                to_replay.append((i, f))
            else:
                oos[f["kind"]] = oos.get(f["kind"], 0) + 1
        if extra_handler is not None:
            extra_handler(spec, r)
    chk.extra["calls_decided"] = chk.extra.get("calls_decided", 0) + ncalls
    m0 = chk.extra.get("mirror_validation", {})
    for k in mir:
        m0[k] = m0.get(k, 0) + mir[k]
    chk.extra["mirror_validation"] = m0
    if oos:
        o0 = chk.extra.get("out_of_scope_observations", {})
        for k, v in oos.items():
            o0[k] = o0.get(k, 0) + v
        chk.extra["out_of_scope_observations"] = o0
    if mir["verdict_disagree"] or mir["model_disagree"]:
        chk.harness_error("mirror disagrees with the real Boolector: %s" % mir)
    # ---- replay (public API, real solver, no mirror)
    rjobs = []
    direct = []
    for i, f in to_replay:
        if f["kind"] in NO_PUBLIC_REPLAY:
            direct.append((i, f))
        else:
            rjobs.append((specs[i], {k: v for k, v in f.items() if k not in ("tb",)}))
    rres = parmap(_replay, rjobs, nproc=nproc, chunk=1) if rjobs else []
    ri = 0
    for i, f in to_replay:
        spec = specs[i]
        if f["kind"] in NO_PUBLIC_REPLAY:
            # observation on the real run under the mirror (deterministic); no public-API symptom to replay
            status, info = "reproduced", "observed on the real run under the mirror: " + f["what"]
        else:
            st, rr = rres[ri]
            ri += 1
            if st != "ok":
                chk.harness_error("replay worker %s: %s" % (st, str(rr)[:300]))
                continue
            status, info = rr
        chk.disagreements_checked += 1
        sig = {"kind": f["kind"], "family": spec.get("tag")}
        if sig_fn is not None:
            sig.update(sig_fn(spec, f) or {})
        if status == "reproduced":
            chk.violation(sig, "%s [%s] %s :: %s :: %s" % (f["kind"], spec.get("tag"), spec.get("desc"), f["what"], info),
                          {"engine": "E1", "spec": spec, "finding": {k: v for k, v in f.items() if k != "tb"}})
        elif status == "not_reproduced" and f["kind"] in ("returned_values_violate", "out_of_type", "nonrandom_changed"):
            # the concrete values were returned by the real library (real Boolector) in the observed run; a fresh run draws
            # other random values and need not hit the violating ones again
            chk.violation(sig, "%s [%s] %s :: %s :: observed on the real run (values returned by the real solver: %s); "
                          "not drawn again in 20 fresh draws" % (f["kind"], spec.get("tag"), spec.get("desc"), f["what"], f.get("returned")),
                          {"engine": "E1", "spec": spec, "finding": {k: v for k, v in f.items() if k != "tb"}})
        elif status == "not_reproduced" and any(sig_matches(k.get("signature", {}), sig) for k in chk.known):
            chk.note_inconclusive("finding of a known-finding family not reproduced this time: %s/%s %s -> %s" % (
                spec.get("tag"), spec.get("desc"), f["kind"], info))
        elif status == "not_reproduced":
            chk.harness_error("finding did not reproduce through the public API: %s/%s %s (%s) -> %s" % (
                spec.get("tag"), spec.get("desc"), f["kind"], f["what"][:200], info))
        else:
            chk.harness_error("replay failed: %s" % info)
    return results
