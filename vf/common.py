"""Common machinery of the /verif checks: tiers, evidence, known findings, replay files, exit codes,
crash-contained parallel map.

Exit codes: 0 held on everything explored; 1 reproduced violation not listed as known;
3 harness error (never a pass, never a violation).
"""
import json, os, sys, time, pickle, tempfile, traceback, hashlib, shutil, signal

VERIF = os.path.dirname(os.path.dirname(os.path.abspath(__file__)))
REPO = os.environ.get("VERIF_REPO", "/repo")      # the registered commands analyse /repo; tools/regress_seeds.sh points scratch worktrees here
OUT = os.environ.get("VERIF_OUT", VERIF)           # evidence/ and replays/ (scratch directory for seed regression runs)
EXIT_OK, EXIT_VIOLATION, EXIT_HARNESS = 0, 1, 3


def tier():
    t = os.environ.get("VERIF_TIER", "quick")
    for a in sys.argv[1:]:
        if a in ("quick", "thorough"):
            t = a
        if a.startswith("--tier="):
            t = a.split("=", 1)[1]
    return t if t in ("quick", "thorough") else "quick"


def seed():
    try:
        return int(os.environ.get("VERIF_SEED", "0"))
    except ValueError:
        return 0


def ncpu():
    try:
        return max(1, min(16, len(os.sched_getaffinity(0))))
    except Exception:
        return 8


def assert_repo_import():
    """The checks analyse the working tree: pyvsc must be the editable install from /repo/src."""
    import vsc
    f = os.path.realpath(vsc.__file__)
    if not f.startswith(os.path.realpath(REPO) + "/src/"):
        print("HARNESS-ERROR: vsc imported from %s, not from %s/src" % (f, REPO))
        sys.exit(EXIT_HARNESS)


def load_known():
    p = os.path.join(VERIF, "known_findings.json")
    if not os.path.exists(p):
        return []
    with open(p) as f:
        return json.load(f).get("findings", [])


def sig_matches(entry_sig, sig):
    """entry matches when every key it names has the same value in the violation's signature"""
    for k, v in entry_sig.items():
        if k not in sig:
            return False
        sv = sig[k]
        if isinstance(v, list):
            if sv not in v and sv != v:
                return False
        elif sv != v:
            return False
    return True


class Check(object):
    def __init__(self, pid, level, explanation="", functions=None):
        self.pid = pid
        self.level = level
        self.tier = tier()
        self.seed = seed()
        self.t0 = time.time()
        self.explanation = explanation
        self.functions = list(functions or [])
        self.assumptions = []
        self.bounds = []
        self.samples = []
        self.evaluations = 0
        self.distinct = set()
        self.queries = {"unsat": 0, "sat": 0, "unknown": 0}
        self.solver_s = 0.0
        self.paths = 0
        self.programs = 0
        self.disagreements_checked = 0
        self.inconclusive = []
        self.violations = []       # unlisted, reproduced
        self.known_hits = {}       # what -> count
        self.harness_errors = []
        self.extra = {}
        self.known = [k for k in load_known() if k.get("property") == pid and k.get("status") == "known"]
        self._printed_known = set()

    # ------------------------------------------------------------------ bookkeeping
    def assume(self, *txt):
        for t in txt:
            if t not in self.assumptions:
                self.assumptions.append(t)

    def bound(self, *txt):
        for t in txt:
            if t not in self.bounds:
                self.bounds.append(t)

    def sample(self, s, limit=12):
        if len(self.samples) < limit:
            self.samples.append(s)

    def count(self, key=None, n=1):
        self.evaluations += n
        if key is not None:
            self.distinct.add(key)

    def q(self, verdict, secs=0.0, n=1):
        self.queries[verdict] = self.queries.get(verdict, 0) + n
        self.solver_s += secs

    def note_inconclusive(self, what):
        if len(self.inconclusive) < 200:
            self.inconclusive.append(what)
        self.extra["inconclusive_total"] = self.extra.get("inconclusive_total", 0) + 1

    def harness_error(self, msg):
        self.harness_errors.append(msg)
        print("HARNESS-ERROR property=%s %s" % (self.pid, msg))

    # ------------------------------------------------------------------ violations
    def violation(self, sig, what, replay):
        """A *reproduced* violation.  sig: dict naming harness/call site/condition; replay: JSON-able dict."""
        for k in self.known:
            if sig_matches(k.get("signature", {}), sig):
                w = k.get("what", what)
                self.known_hits[w] = self.known_hits.get(w, 0) + 1
                if w not in self._printed_known:
                    self._printed_known.add(w)
                    print("KNOWN-FINDING: property=%s %s" % (self.pid, w))
                if os.environ.get("VERIF_SHOW_KNOWN"):
                    print("  known-match: %s :: %s" % (json.dumps(sig, sort_keys=True), what[:900]))
                return False
        d = os.path.join(OUT, "replays", self.pid)
        os.makedirs(d, exist_ok=True)
        body = json.dumps({"property": self.pid, "signature": sig, "what": what, "replay": replay},
                          indent=1, sort_keys=True, default=str)
        h = hashlib.sha1(body.encode()).hexdigest()[:12]
        path = os.path.join(d, "%s.json" % h)
        with open(path, "w") as f:
            f.write(body)
        if len(self.violations) < 25:
            print("VIOLATION property=%s replay=%s" % (self.pid, path))
            print("  what: %s" % what)
            print("  signature: %s" % json.dumps(sig, sort_keys=True, default=str))
        self.violations.append({"signature": sig, "what": what, "replay": path})
        return True

    # ------------------------------------------------------------------ evidence
    def finish(self):
        wall = time.time() - self.t0
        # any finding listed as known but not observed is still announced (it is a committed, specific finding)
        cov = {
            "explanation": self.explanation,
            "evaluations": int(self.evaluations),
            "distinct_nontrivial": int(len(self.distinct)),
            "rule": self.extra.pop("rule", "one evaluation = one solver-decided obligation on one configuration; distinct = "
                                   "distinct configuration keys"),
            "samples": self.samples if self.samples else ["(none)"],
            "functions_encoded": self.functions,
            "bounds": self.bounds,
            "paths": int(self.paths),
            "programs": int(self.programs),
            "disagreements_checked": int(self.disagreements_checked),
            "queries": self.queries,
            "solver_s": round(self.solver_s, 3),
            "inconclusive": self.inconclusive[:50],
            "known_findings_seen": self.known_hits,
            "harness_errors": self.harness_errors[:20],
            "exhaustive": False,
        }
        cov.update(self.extra)
        ev = {
            "property_id": self.pid,
            "tier": self.tier,
            "seed": self.seed,
            "level": self.level,
            "coverage": cov,
            "assumptions": self.assumptions,
            "wall_s": round(wall, 2),
            "violations": len(self.violations),
        }
        os.makedirs(os.path.join(OUT, "evidence"), exist_ok=True)
        p = os.path.join(OUT, "evidence", "%s.json" % self.pid)
        with open(p + ".tmp", "w") as f:
            json.dump(ev, f, indent=1, default=str)
        os.replace(p + ".tmp", p)
        print("SUMMARY property=%s tier=%s evaluations=%d distinct=%d paths=%d programs=%d queries=%s solver_s=%.1f "
              "inconclusive=%d known=%d violations=%d harness_errors=%d wall=%.1fs" % (
                  self.pid, self.tier, self.evaluations, len(self.distinct), self.paths, self.programs,
                  json.dumps(self.queries), self.solver_s, cov.get("inconclusive_total", len(self.inconclusive)),
                  sum(self.known_hits.values()), len(self.violations), len(self.harness_errors), wall))
        sys.stdout.flush()
        if self.violations:
            code = EXIT_VIOLATION      # every listed violation was reproduced against the real code
        elif self.harness_errors:
            code = EXIT_HARNESS
        else:
            code = EXIT_OK
        os._exit(code)   # skip interpreter teardown (pyboolector objects are sensitive to destruction order)


# ---------------------------------------------------------------------- crash-contained parallel map
def _child(fn, idxs, items, outpath, init):
    res = {}
    try:
        if init is not None:
            init()
        for i in idxs:
            try:
                res[i] = ("ok", fn(items[i]))
            except BaseException as e:   # noqa
                res[i] = ("exc", "%s: %s\n%s" % (type(e).__name__, e, traceback.format_exc()[-3000:]))
            with open(outpath + ".part", "wb") as f:
                pickle.dump(res, f)
            os.replace(outpath + ".part", outpath)
    finally:
        sys.stdout.flush()
        sys.stderr.flush()
        os._exit(0)


def parmap(fn, items, nproc=None, chunk=None, init=None, item_timeout=300, progress=None):
    """fn(item) for every item, in forked children (results pickled through files).  A child that dies
    (segfault, kill, timeout) loses only its unfinished items, which are retried one per process; a second
    death is reported as ("crash", info).  Returns list of (status, value) with status ok|exc|crash."""
    n = len(items)
    if n == 0:
        return []
    nproc = nproc or ncpu()
    if chunk is None:
        chunk = max(1, min(64, n // (nproc * 4) or 1))
    tmp = tempfile.mkdtemp(prefix="vf_par_")
    results = [None] * n
    queue = [list(range(i, min(n, i + chunk))) for i in range(0, n, chunk)]
    retried = set()
    running = {}   # pid -> (idxs, outpath, t_start)
    serial = 0
    done = 0
    try:
        while queue or running:
            while queue and len(running) < nproc:
                idxs = queue.pop(0)
                serial += 1
                outpath = os.path.join(tmp, "r%d.pkl" % serial)
                sys.stdout.flush()
                sys.stderr.flush()
                pid = os.fork()
                if pid == 0:
                    _child(fn, idxs, items, outpath, init)
                running[pid] = (idxs, outpath, time.time())
            # reap
            try:
                pid, status = os.waitpid(-1, os.WNOHANG)
            except ChildProcessError:
                pid = 0
            if pid == 0:
                now = time.time()
                for p, (idxs, outpath, ts) in list(running.items()):
                    if now - ts > item_timeout * len(idxs) + 30:
                        try:
                            os.kill(p, signal.SIGKILL)
                        except Exception:
                            pass
                time.sleep(0.02)
                continue
            if pid not in running:
                continue
            idxs, outpath, ts = running.pop(pid)
            got = {}
            if os.path.exists(outpath):
                try:
                    with open(outpath, "rb") as f:
                        got = pickle.load(f)
                except Exception:
                    got = {}
                os.unlink(outpath)
            missing = []
            for i in idxs:
                if i in got:
                    results[i] = got[i]
                    done += 1
                else:
                    missing.append(i)
            if missing:
                first = missing[0]
                if first in retried:
                    results[first] = ("crash", "child died (status %s)" % status)
                    done += 1
                    rest = missing[1:]
                else:
                    rest = missing
                for i in rest:
                    retried.add(i)
                    queue.append([i])
            if progress and done % progress == 0:
                print("  .. %d/%d" % (done, n))
                sys.stdout.flush()
    finally:
        shutil.rmtree(tmp, ignore_errors=True)
    return results
