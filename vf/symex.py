"""E3 -- symex-lite: symbolic execution of the real pyvsc Python kernels with z3.

SInt/SBool overload Python's operators; a harness is an ordinary function `h(sym)` that obtains inputs with
sym.int()/sym.bool(), calls the *real* library code and states obligations with sym.check(name, cond).  Control flow
on symbolic conditions forks by re-execution (depth first over decision vectors; infeasible prefixes pruned by z3).
A value needed concretely (list index, dict key, range()) forks by value: pick a model value k, continue with x == k,
and explore x != k later -- complete, possibly expensive, budgeted.

Two value theories:
  int : z3 Int, exact Python semantics.  & | ^ << >> // % need one concrete operand (a mask / shift amount) and are
        encoded with div/mod/multiplication by powers of two (exact on unbounded ints).
  bv  : signed BitVec(W).  Every value carries a syntactic bit-length bound; an operation whose result bound reaches
        W-1 makes the path *inconclusive* (the machine-word encoding never silently stands in for Python ints).

The same harness runs with plain Python ints (mode 'concrete') to replay a counterexample against the unpatched code.
"""
import builtins, time
import z3

W = 192


class Prune(BaseException):
    """path infeasible"""


class Unsupported(BaseException):
    """operation outside the chosen theory -> inconclusive"""


class Budget(BaseException):
    pass


_cur = None   # current Ctx


def cur():
    return _cur


class Ctx(object):
    def __init__(self, theory, decisions, timeout_ms=20000):
        self.theory = theory
        self.solver = z3.Solver()
        self.solver.set("timeout", timeout_ms)
        self.decisions = list(decisions)
        self.nfix = len(self.decisions)
        self.taken = []
        self.free = []
        self.vars = {}
        self.checks = []        # (name, z3 bool)
        self.nq = 0
        self.tq = 0.0
        self.unknown = 0
        self.model = None
        self.known = {}

    def _check(self, *extra):
        t = time.time()
        r = self.solver.check(*extra)
        self.tq += time.time() - t
        self.nq += 1
        if r == z3.unknown:
            self.unknown += 1
        return r

    def add(self, c):
        self.solver.add(c)
        self.model = None

    def _model(self):
        """a model of the current path condition (kept valid incrementally)"""
        if self.model is None:
            r = self._check()
            if r == z3.unsat:
                raise Prune()
            if r == z3.unknown:
                raise Unsupported("solver unknown on path condition")
            self.model = self.solver.model()
        return self.model

    def _holds_in_model(self, cond):
        v = self._model().eval(cond, model_completion=True)
        return z3.is_true(v)

    def decide(self, cond):
        key = cond.get_id()
        if key in self.known:
            return self.known[key]
        i = len(self.taken)
        if i < self.nfix:
            d = self.decisions[i]
            if isinstance(d, tuple):
                raise RuntimeError("schedule mismatch (expected bool decision)")
            self.solver.add(cond if d else z3.Not(cond))
            if self.model is not None and self._holds_in_model(cond) != d:
                self.model = None
            if i == self.nfix - 1:
                self.model = None
                self._model()          # prunes if the flipped branch is infeasible
            self.taken.append(d)
            self.free.append(False)
            self.known[key] = d
            return d
        d = self._holds_in_model(cond)          # this direction is feasible: the model witnesses it
        other = z3.Not(cond) if d else cond
        ro = self._check(other)
        if ro == z3.unknown:
            raise Unsupported("solver unknown on branch condition")
        self.taken.append(d)
        self.free.append(ro == z3.sat)
        self.solver.add(cond if d else z3.Not(cond))
        self.known[key] = d
        return d

    def realize(self, z):
        zs = z3.simplify(z)
        if z3.is_int_value(zs):
            return zs.as_long()
        if z3.is_bv_value(zs):
            return zs.as_signed_long()
        while True:
            i = len(self.taken)
            if i < self.nfix:
                d = self.decisions[i]
                if not isinstance(d, tuple):
                    raise RuntimeError("schedule mismatch (expected value decision)")
                k, eq = d
                self.taken.append(d)
                self.free.append(False)
                self.model = None
                if eq:
                    self.solver.add(z == k)
                    if i == self.nfix - 1:
                        self._model()
                    return k
                self.solver.add(z != k)
                if i == self.nfix - 1:
                    self._model()
                continue
            mv = self._model().eval(z, model_completion=True)
            k = mv.as_long() if z3.is_int_value(mv) else mv.as_signed_long()
            self.taken.append((k, True))
            # the sibling (z != k) is always scheduled; it is pruned if infeasible
            self.free.append(True)
            self.solver.add(z == k)      # the model still satisfies the path condition
            return k


# ---------------------------------------------------------------------------------------------- values
def _is_pow2(n):
    return n > 0 and (n & (n - 1)) == 0


class SBool(object):
    __slots__ = ("z",)

    def __init__(self, z):
        self.z = z

    def __bool__(self):
        z = z3.simplify(self.z)
        if z3.is_true(z):
            return True
        if z3.is_false(z):
            return False
        return _cur.decide(z)

    def _o(self, o):
        if isinstance(o, SBool):
            return o.z
        if isinstance(o, SInt):
            return o.z != o._lift(0)
        return z3.BoolVal(bool(o))

    def __and__(self, o): return SBool(z3.And(self.z, self._o(o)))
    __rand__ = __and__
    def __or__(self, o): return SBool(z3.Or(self.z, self._o(o)))
    __ror__ = __or__
    def __xor__(self, o): return SBool(z3.Xor(self.z, self._o(o)))
    __rxor__ = __xor__
    def __invert__(self): return SBool(z3.Not(self.z))
    def __eq__(self, o): return SBool(self.z == self._o(o))
    def __ne__(self, o): return SBool(self.z != self._o(o))
    __hash__ = None

    def __int__(self):
        return 1 if bool(self) else 0

    def __index__(self):
        return 1 if bool(self) else 0

    def __repr__(self):
        return "SBool(%s)" % self.z


def Not(x):
    if isinstance(x, SBool):
        return SBool(z3.Not(x.z))
    return not x


def And(*xs):
    zs = []
    for x in xs:
        if isinstance(x, SBool):
            zs.append(x.z)
        elif isinstance(x, SInt):
            zs.append(x.z != x._lift(0))
        elif not x:
            return False
    if not zs:
        return True
    return SBool(z3.And(*zs))


def Or(*xs):
    zs = []
    for x in xs:
        if isinstance(x, SBool):
            zs.append(x.z)
        elif isinstance(x, SInt):
            zs.append(x.z != x._lift(0))
        elif x:
            return True
    if not zs:
        return False
    return SBool(z3.Or(*zs))


def Implies(a, b):
    return Or(Not(a), b)


def Ite(c, a, b):
    """value-level if-then-else that does not fork"""
    if not isinstance(c, SBool):
        return a if c else b
    th = _cur.theory
    az = a.z if isinstance(a, SInt) else _lift_const(int(a), th)
    bz = b.z if isinstance(b, SInt) else _lift_const(int(b), th)
    ab = a.bits if isinstance(a, SInt) else builtins.int(a).bit_length() + 1
    bb = b.bits if isinstance(b, SInt) else builtins.int(b).bit_length() + 1
    return SInt(z3.If(c.z, az, bz), max(ab, bb))


def _lift_const(v, theory):
    if theory == "int":
        return z3.IntVal(v)
    return z3.BitVecVal(v, W)


class SInt(object):
    __slots__ = ("z", "bits")

    def __init__(self, z, bits=None):
        self.z = z
        self.bits = bits if bits is not None else W   # conservative bit-length bound (bv theory)

    # ---- helpers
    @property
    def theory(self):
        return "int" if z3.is_int(self.z) else "bv"

    def _lift(self, v):
        return _lift_const(v, self.theory)

    def _other(self, o):
        """returns (z, bits, concrete value or None) or raises TypeError"""
        if isinstance(o, SInt):
            return o.z, o.bits, None
        if isinstance(o, SBool):
            one = Ite(o, 1, 0)
            return one.z, 2, None
        if isinstance(o, bool):
            o = builtins.int(o)
        if isinstance(o, builtins.int):
            return self._lift(o), builtins.int(o).bit_length() + 1, builtins.int(o)
        if hasattr(o, "__int__") and not isinstance(o, (float, str)):
            v = o.__int__()
            if isinstance(v, SInt):
                return v.z, v.bits, None
            return self._lift(builtins.int(v)), builtins.int(v).bit_length() + 1, builtins.int(v)
        raise TypeError("cannot lift %r" % (type(o),))

    def _mk(self, z, bits):
        if self.theory == "bv" and bits >= W - 1:
            raise Unsupported("bit-vector theory: result may exceed %d bits" % W)
        return SInt(z, bits)

    def _conc(self):
        zs = z3.simplify(self.z)
        if z3.is_int_value(zs):
            return zs.as_long()
        if z3.is_bv_value(zs):
            return zs.as_signed_long()
        return None

    # ---- arithmetic
    def __add__(s, o):
        try: oz, ob, oc = s._other(o)
        except TypeError: return NotImplemented
        return s._mk(s.z + oz, max(s.bits, ob) + 1)
    __radd__ = __add__

    def __sub__(s, o):
        try: oz, ob, oc = s._other(o)
        except TypeError: return NotImplemented
        return s._mk(s.z - oz, max(s.bits, ob) + 1)

    def __rsub__(s, o):
        try: oz, ob, oc = s._other(o)
        except TypeError: return NotImplemented
        return s._mk(oz - s.z, max(s.bits, ob) + 1)

    def __mul__(s, o):
        try: oz, ob, oc = s._other(o)
        except TypeError: return NotImplemented
        return s._mk(s.z * oz, s.bits + ob)
    __rmul__ = __mul__

    def __neg__(s): return s._mk(-s.z, s.bits + 1)
    def __pos__(s): return s
    def __abs__(s):
        return s._mk(z3.If(s.z >= s._lift(0), s.z, -s.z), s.bits + 1)

    def __invert__(s):
        if s.theory == "int":
            return SInt(-s.z - 1, s.bits + 1)
        return s._mk(~s.z, s.bits + 1)

    # floor division / modulo (Python semantics) -- concrete positive divisor, or general in int theory
    def __floordiv__(s, o):
        try: oz, ob, oc = s._other(o)
        except TypeError: return NotImplemented
        if s.theory == "int":
            if oc is not None and oc > 0:
                return SInt(s.z / oz, s.bits)
            # general: floor(a/b); z3 div is Euclidean (remainder >= 0)
            q = s.z / oz
            r = s.z % oz
            return SInt(z3.If(z3.And(oz < 0, r != 0), q - 1, q), s.bits + 1)   # careful: exact floor
        if oc is not None and oc > 0 and _is_pow2(oc):
            return s._mk(s.z >> (oc.bit_length() - 1), s.bits)
        raise Unsupported("bv theory: // by non power of two")

    def __rfloordiv__(s, o):
        if s.theory == "int":
            oz, ob, oc = s._other(o)
            return SInt(oz, ob).__floordiv__(s)
        raise Unsupported("bv theory: x // sym")

    def __truediv__(s, o):
        raise Unsupported("true division on a symbolic value (float)")
    __rtruediv__ = __truediv__

    def __mod__(s, o):
        try: oz, ob, oc = s._other(o)
        except TypeError: return NotImplemented
        if s.theory == "int":
            if oc is not None and oc > 0:
                return SInt(s.z % oz, ob)
            r = s.z % oz     # Euclidean: 0 <= r < |b|
            return SInt(z3.If(z3.And(oz < 0, r != 0), r + oz, r), ob + 1)
        if oc is not None and oc > 0 and _is_pow2(oc):
            return s._mk(s.z & (oc - 1), ob)
        raise Unsupported("bv theory: % by non power of two")

    def __rmod__(s, o):
        if s.theory == "int":
            oz, ob, oc = s._other(o)
            return SInt(oz, ob).__mod__(s)
        raise Unsupported("bv theory: x % sym")

    def __divmod__(s, o):
        return (s // o, s % o)

    def __pow__(s, o, m=None):
        if isinstance(o, builtins.int) and 0 <= o <= 4 and m is None:
            r = 1
            for _ in range(o):
                r = s * r
            return r
        raise Unsupported("pow on symbolic")

    def __rpow__(s, o):
        if o == 2:
            return SInt.__rlshift__(s, 1)
        raise Unsupported("rpow on symbolic")

    # ---- bit operations
    def _int_and_const(s, m):
        """x & m for concrete m in the int theory"""
        if m == 0:
            return SInt(z3.IntVal(0), 1)
        if m < 0:
            # x & m == x - (x & ~m), ~m >= 0
            low = s._int_and_const(~m)
            return SInt(s.z - low.z, s.bits + 1)
        # m > 0: sum over maximal runs of set bits
        terms = []
        b = 0
        mm = m
        while mm:
            if mm & 1:
                lo = b
                while mm & 1:
                    mm >>= 1
                    b += 1
                hi = b - 1
                t = (s.z / z3.IntVal(1 << lo)) % z3.IntVal(1 << (hi - lo + 1))
                terms.append(t * z3.IntVal(1 << lo) if lo else t)
            else:
                mm >>= 1
                b += 1
        return SInt(z3.Sum(*terms) if len(terms) > 1 else terms[0], m.bit_length() + 1)

    def __and__(s, o):
        try: oz, ob, oc = s._other(o)
        except TypeError: return NotImplemented
        if s.theory == "int":
            sc = s._conc()
            if oc is not None:
                return s._int_and_const(oc)
            if sc is not None:
                return SInt(oz, ob)._int_and_const(sc)
            raise Unsupported("int theory: symbolic & symbolic")
        if oc is not None and oc >= 0:
            return s._mk(s.z & oz, oc.bit_length() + 1)     # result in [0, oc]
        sc = s._conc()
        if sc is not None and sc >= 0:
            return s._mk(s.z & oz, sc.bit_length() + 1)
        return s._mk(s.z & oz, max(s.bits, ob))
    __rand__ = __and__

    def __or__(s, o):
        try: oz, ob, oc = s._other(o)
        except TypeError: return NotImplemented
        if s.theory == "int":
            sc = s._conc()
            if oc is not None:
                a = s._int_and_const(oc)
                return SInt(s.z + oz - a.z, max(s.bits, ob) + 1)
            if sc is not None:
                a = SInt(oz, ob)._int_and_const(sc)
                return SInt(s.z + oz - a.z, max(s.bits, ob) + 1)
            raise Unsupported("int theory: symbolic | symbolic")
        return s._mk(s.z | oz, max(s.bits, ob))
    __ror__ = __or__

    def __xor__(s, o):
        try: oz, ob, oc = s._other(o)
        except TypeError: return NotImplemented
        if s.theory == "int":
            sc = s._conc()
            if oc is not None:
                a = s._int_and_const(oc)
            elif sc is not None:
                a = SInt(oz, ob)._int_and_const(sc)
            else:
                raise Unsupported("int theory: symbolic ^ symbolic")
            return SInt(s.z + oz - 2 * a.z, max(s.bits, ob) + 1)
        return s._mk(s.z ^ oz, max(s.bits, ob))
    __rxor__ = __xor__

    def __lshift__(s, o):
        k = o if isinstance(o, builtins.int) and not isinstance(o, bool) else None
        if k is None:
            if isinstance(o, SInt):
                k = o._conc()
                if k is None:
                    k = _cur.realize(o.z)
            else:
                k = builtins.int(o)
        if k < 0:
            raise ValueError("negative shift count")
        if s.theory == "int":
            return SInt(s.z * z3.IntVal(1 << k), s.bits + k)
        return s._mk(s.z << k, s.bits + k)

    def __rlshift__(s, o):
        # concrete << symbolic : realise the amount (fork by value)
        k = s._conc()
        if k is None:
            k = _cur.realize(s.z)
        return builtins.int(o) << k

    def __rshift__(s, o):
        k = o if isinstance(o, builtins.int) and not isinstance(o, bool) else None
        if k is None:
            if isinstance(o, SInt):
                k = o._conc()
                if k is None:
                    k = _cur.realize(o.z)
            else:
                k = builtins.int(o)
        if k < 0:
            raise ValueError("negative shift count")
        if s.theory == "int":
            return SInt(s.z / z3.IntVal(1 << k), max(1, s.bits - k) + 1)
        return SInt(s.z >> k, max(2, s.bits - k))   # arithmetic shift

    def __rrshift__(s, o):
        k = s._conc()
        if k is None:
            k = _cur.realize(s.z)
        return builtins.int(o) >> k

    # ---- comparisons
    def _c(s, o, f):
        try: oz, ob, oc = s._other(o)
        except TypeError: return NotImplemented
        return SBool(f(s.z, oz))

    def __eq__(s, o):
        if o is None:
            return False
        return s._c(o, lambda a, b: a == b)

    def __ne__(s, o):
        if o is None:
            return True
        return s._c(o, lambda a, b: a != b)

    def __lt__(s, o): return s._c(o, lambda a, b: a < b)
    def __le__(s, o): return s._c(o, lambda a, b: a <= b)
    def __gt__(s, o): return s._c(o, lambda a, b: a > b)
    def __ge__(s, o): return s._c(o, lambda a, b: a >= b)

    def __bool__(s):
        return bool(SBool(s.z != s._lift(0)))

    def __int__(s):
        c = s._conc()
        if c is not None:
            return c
        return _cur.realize(s.z)

    def __index__(s):
        c = s._conc()
        if c is not None:
            return c
        return _cur.realize(s.z)

    def __hash__(s):
        return hash(s.__index__())

    def __float__(s):
        raise Unsupported("float() of a symbolic value")

    def __round__(s, n=None):
        return s

    def bit_length(s):
        raise Unsupported("bit_length of symbolic")

    def __repr__(s):
        return "<sym>"
    __str__ = __repr__

    def __format__(s, spec):
        return "<sym>"


class _SymIntMeta(type):
    def __instancecheck__(cls, x):
        return isinstance(x, (builtins.int, SInt))

    def __subclasscheck__(cls, c):
        return issubclass(c, builtins.int) or c is SInt


class sym_int(metaclass=_SymIntMeta):
    """stand-in for the builtin `int` inside patched pyvsc modules: keeps SInt symbolic, otherwise the builtin"""
    def __new__(cls, x=0, *a):
        if isinstance(x, SInt):
            return x
        if isinstance(x, SBool):
            return Ite(x, 1, 0)
        if not isinstance(x, (builtins.int, str, float, bytes)) and hasattr(type(x), "__int__"):
            r = type(x).__int__(x)
            if isinstance(r, SInt):
                return r
            return builtins.int(r)
        return builtins.int(x, *a)


def sym_max(*a, **kw):
    if len(a) == 1:
        a = tuple(a[0])
    if not any(isinstance(x, SInt) for x in a):
        return builtins.max(a, **kw)
    r = a[0]
    for x in a[1:]:
        r = Ite(x > r, x, r) if isinstance(x > r, SBool) else (x if x > r else r)
    return r


def sym_min(*a, **kw):
    if len(a) == 1:
        a = tuple(a[0])
    if not any(isinstance(x, SInt) for x in a):
        return builtins.min(a, **kw)
    r = a[0]
    for x in a[1:]:
        r = Ite(x < r, x, r) if isinstance(x < r, SBool) else (x if x < r else r)
    return r


def sym_abs(x):
    if isinstance(x, SInt):
        return x.__abs__()
    return builtins.abs(x)


# ---------------------------------------------------------------------------------------------- harness API
class Sym(object):
    """what a harness sees.  mode 'sym': inputs are SInt/SBool; mode 'concrete': plain ints from `values`."""
    def __init__(self, mode, ctx=None, values=None):
        self.mode = mode
        self.ctx = ctx
        self.values = values or {}
        self.failed = []       # concrete mode: names of failed checks
        self.nchecks = 0

    @property
    def symbolic(self):
        return self.mode == "sym"

    def int(self, name, lo=None, hi=None):
        if self.mode == "concrete":
            v = builtins.int(self.values[name])
            if (lo is not None and v < lo) or (hi is not None and v > hi):
                raise Prune()
            return v
        c = self.ctx
        if c.theory == "int":
            z = z3.Int(name)
        else:
            z = z3.BitVec(name, W)
        c.vars[name] = z
        bits = W
        if lo is not None:
            c.add(z >= (z3.IntVal(lo) if c.theory == "int" else z3.BitVecVal(lo, W)))
        if hi is not None:
            c.add(z <= (z3.IntVal(hi) if c.theory == "int" else z3.BitVecVal(hi, W)))
        if lo is not None and hi is not None:
            bits = max(builtins.int(lo).bit_length(), builtins.int(hi).bit_length()) + 1
        elif c.theory == "bv":
            raise RuntimeError("bv theory inputs need both bounds")
        return SInt(z, bits)

    def bool(self, name):
        if self.mode == "concrete":
            return bool(self.values[name])
        z = z3.Bool(name)
        self.ctx.vars[name] = z
        return SBool(z)

    def assume(self, cond):
        if self.mode == "concrete":
            if not cond:
                raise Prune()
            return
        if isinstance(cond, SBool):
            self.ctx.add(cond.z)
            if self.ctx._check() == z3.unsat:
                raise Prune()
        elif isinstance(cond, SInt):
            self.assume(cond != 0)
        elif not cond:
            raise Prune()

    def check(self, name, cond):
        self.nchecks += 1
        if self.mode == "concrete":
            if isinstance(cond, (SBool, SInt)):
                raise RuntimeError("symbolic value in concrete replay")
            if not cond:
                self.failed.append(name)
            return
        if isinstance(cond, SBool):
            self.ctx.checks.append((name, cond.z))
        elif isinstance(cond, SInt):
            self.ctx.checks.append((name, cond.z != cond._lift(0)))
        else:
            self.ctx.checks.append((name, z3.BoolVal(bool(cond))))

    def conc(self, x):
        """concrete view of a value for sample output"""
        return x if not isinstance(x, (SInt, SBool)) else "<sym>"


class Result(object):
    def __init__(self):
        self.paths = 0
        self.checks = 0
        self.queries = 0
        self.solver_s = 0.0
        self.unknown = 0
        self.cex = None          # (check name, {var: value})
        self.inconclusive = None  # reason
        self.exc_paths = 0
        self.wall = 0.0


def explore(harness, theory="int", max_paths=20000, max_seconds=120, expected_exc=(), stop_on_first=True,
            timeout_ms=20000):
    """Explore every feasible path of harness(sym).  Returns Result; res.cex is the first failing obligation with a
    concrete model of the inputs.  An exception escaping the code under test on a feasible path is itself a failed
    obligation named 'raises:<Type>' unless its type is in expected_exc."""
    global _cur
    res = Result()
    t0 = time.time()
    stack = [[]]
    while stack:
        if res.paths >= max_paths or time.time() - t0 > max_seconds:
            res.inconclusive = "budget exceeded (%d paths, %.0fs)" % (res.paths, time.time() - t0)
            break
        prefix = stack.pop()
        ctx = Ctx(theory, prefix, timeout_ms)
        _cur = ctx
        sym = Sym("sym", ctx)
        exc = None
        try:
            harness(sym)
        except Prune:
            res.queries += ctx.nq; res.solver_s += ctx.tq
            _push_siblings(stack, ctx)
            continue
        except Unsupported as e:
            res.queries += ctx.nq; res.solver_s += ctx.tq
            res.inconclusive = "unsupported: %s" % e
            _push_siblings(stack, ctx)
            if stop_on_first:
                break
            continue
        except Exception as e:   # the code under test (or the harness) raised on a feasible path
            if expected_exc and isinstance(e, expected_exc):
                exc = None
            else:
                import traceback
                exc = (e, traceback.format_exc()[-1500:])
        finally:
            _cur = None
        _cur = ctx
        try:
            res.paths += 1
            if exc is not None:
                res.exc_paths += 1
                r = ctx._check()
                if r == z3.sat:
                    m = ctx.solver.model()
                    res.cex = ("raises:%s" % type(exc[0]).__name__, _model(ctx, m), exc[1])
                    if stop_on_first:
                        break
                elif r == z3.unknown:
                    res.inconclusive = "unknown on exception path"
            pending = []
            for name, cz in ctx.checks:
                res.checks += 1
                zs = z3.simplify(cz)
                if z3.is_true(zs):
                    continue
                pending.append((name, cz))
            if len(pending) > 1:
                # one query for the conjunction; the obligations are examined one by one only if it can fail
                rall = ctx._check(z3.Not(z3.And(*[cz for _, cz in pending])))
                if rall == z3.unsat:
                    pending = []
            for name, cz in pending:
                r = ctx._check(z3.Not(cz))
                if r == z3.sat:
                    m = ctx.solver.model()
                    res.cex = (name, _model(ctx, m), None)
                    break
                if r == z3.unknown:
                    res.unknown += 1
                    res.inconclusive = "solver unknown on obligation %s" % name
            res.queries += ctx.nq; res.solver_s += ctx.tq
            if res.cex is not None and stop_on_first:
                break
            _push_siblings(stack, ctx)
        finally:
            _cur = None
    res.wall = time.time() - t0
    return res


def _model(ctx, m):
    out = {}
    for n, z in ctx.vars.items():
        v = m.eval(z, model_completion=True)
        if z3.is_bool(z):
            out[n] = bool(z3.is_true(v))
        elif z3.is_int(z):
            out[n] = v.as_long()
        else:
            out[n] = v.as_signed_long()
    return out


def _push_siblings(stack, ctx):
    for i in range(len(ctx.taken) - 1, ctx.nfix - 1, -1):
        if i < len(ctx.free) and ctx.free[i]:
            t = ctx.taken[i]
            if isinstance(t, tuple):
                stack.append(ctx.taken[:i] + [(t[0], False)])
            else:
                stack.append(ctx.taken[:i] + [not t])


def run_concrete(harness, values, expected_exc=()):
    """Replay: run the harness on plain integers, no stand-ins.  Returns (failed check names, exception or None)."""
    global _cur
    _cur = None
    sym = Sym("concrete", None, values)
    try:
        harness(sym)
    except Prune:
        return None, None
    except Exception as e:
        if expected_exc and isinstance(e, expected_exc):
            return sym.failed, None
        return sym.failed, e
    return sym.failed, None


# ---------------------------------------------------------------------------------------------- stand-ins
class standins(object):
    """context manager installing module-level stand-ins in pyvsc modules (never in /repo's files)"""
    def __init__(self, modules, extra=None):
        self.modules = modules
        self.extra = extra or []     # (object, attr, value)
        self.saved = []

    def __enter__(self):
        for m in self.modules:
            for name, val in (("int", sym_int), ("max", sym_max), ("min", sym_min), ("abs", sym_abs)):
                had = name in m.__dict__
                self.saved.append((m, name, had, m.__dict__.get(name)))
                setattr(m, name, val)
        for obj, attr, val in self.extra:
            had = attr in obj.__dict__
            self.saved.append((obj, attr, had, obj.__dict__.get(attr)))
            setattr(obj, attr, val)
        return self

    def __exit__(self, *a):
        for obj, name, had, old in reversed(self.saved):
            if had:
                setattr(obj, name, old)
            else:
                try:
                    delattr(obj, name)
                except AttributeError:
                    pass
        self.saved = []
        return False


def selftest(nrand=300, seed=1):
    """differential test of every operator against Python ints in both theories; returns list of failures"""
    import random
    global _cur
    rnd = random.Random(seed)
    fails = []
    vals = [0, 1, -1, 2, -2, 3, 7, 8, 15, 16, 255, 256, -255, -256, 2**31 - 1, 2**31, -2**31, 2**63, 2**64 - 1, -2**63]
    consts = [0, 1, 3, 5, 0xf0, 0xff, 0x2d, 0x100, 2**16 - 1, 2**32 - 1, 2**63, -1, -2, -16, ~0xf0]
    pairs = [(a, c) for a in vals for c in consts]
    for _ in range(nrand):
        pairs.append((rnd.randint(-2**66, 2**66), rnd.choice(consts + [rnd.randint(-2**20, 2**20)])))
    ops = {
        "add": lambda a, b: a + b, "sub": lambda a, b: a - b, "rsub": lambda a, b: b - a, "mul": lambda a, b: a * b,
        "and": lambda a, b: a & b, "or": lambda a, b: a | b, "xor": lambda a, b: a ^ b, "rand": lambda a, b: b & a,
        "inv": lambda a, b: ~a, "neg": lambda a, b: -a,
        "lt": lambda a, b: a < b, "le": lambda a, b: a <= b, "eq": lambda a, b: a == b, "ne": lambda a, b: a != b,
        "gt": lambda a, b: a > b, "ge": lambda a, b: a >= b,
    }
    shops = {"shl": lambda a, k: a << k, "shr": lambda a, k: a >> k}
    divops = {"floordiv": lambda a, b: a // b, "mod": lambda a, b: a % b}
    for theory in ("int", "bv"):
        ctx = Ctx(theory, [])
        _cur = ctx
        try:
            for a, c in pairs:
                sa = SInt(_lift_const(a, theory), 70)
                for n, f in ops.items():
                    try:
                        r = f(sa, c)
                    except Unsupported:
                        continue
                    exp = f(a, c)
                    rz = z3.simplify(r.z)
                    if isinstance(r, SBool):
                        got = z3.is_true(rz)
                    else:
                        got = rz.as_long() if theory == "int" else rz.as_signed_long()
                    if got != exp:
                        fails.append((theory, n, a, c, got, exp))
                for n, f in shops.items():
                    for k in (0, 1, 4, 13, 32):
                        try:
                            r = f(sa, k)
                        except Unsupported:
                            continue
                        rz = z3.simplify(r.z)
                        got = rz.as_long() if theory == "int" else rz.as_signed_long()
                        if got != f(a, k):
                            fails.append((theory, n, a, k, got, f(a, k)))
                for n, f in divops.items():
                    for d in (1, 2, 8, 3, 10, 256):
                        try:
                            r = f(sa, d)
                        except Unsupported:
                            continue
                        rz = z3.simplify(r.z)
                        got = rz.as_long() if theory == "int" else rz.as_signed_long()
                        if got != f(a, d):
                            fails.append((theory, n, a, d, got, f(a, d)))
            if theory == "int":
                # general floor division / modulo with symbolic-style (non-constant-folded) divisors
                for a in (7, -7, 0, 13, -13):
                    for b in (2, -2, 3, -3, 5):
                        sa = SInt(z3.IntVal(a), 8); sb = SInt(z3.IntVal(b), 8)
                        q = z3.simplify((sa // sb).z).as_long(); r = z3.simplify((sa % sb).z).as_long()
                        if q != a // b or r != a % b:
                            fails.append((theory, "gen-divmod", a, b, (q, r), (a // b, a % b)))
        finally:
            _cur = None
    return fails
