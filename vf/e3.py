"""Driver for E3 (symex-lite) checks: explores a list of harness configurations in parallel, replays every
counterexample on plain integers without stand-ins, and feeds the Check object."""
import time, builtins
from . import symex
from .common import parmap


def pyvsc_standins(extra_modules=()):
    """The module-level stand-ins used for pyvsc kernels (identity on concrete values)."""
    import vsc.types as T
    import vsc.model.value_scalar as VS
    import vsc.model.value_bool as VB
    import vsc.model.field_scalar_model as FSM
    import vsc.model.expr_literal_model as ELM
    import vsc.model.enum_field_model as EFM
    import vsc.model.field_array_model as FAM
    mods = [T, VS, FSM, ELM, EFM, FAM] + list(extra_modules)
    RealValueInt = VS.ValueInt

    def value_int(v=0, *a):
        if isinstance(v, symex.SInt):
            return v
        return RealValueInt(v, *a)

    def vb_bool(self):
        return bool(self.v)

    def vs_bool(self):
        return bool(self.v != 0)

    extra = [(VS, "ValueInt", value_int), (T, "ValueInt", value_int),
             (VB.ValueBool, "__bool__", vb_bool), (VS.ValueScalar, "__bool__", vs_bool)]
    return symex.standins(mods, extra)


STANDIN_NOTES = [
    "stand-in: module-level `int`/`max`/`min`/`abs` in the pyvsc modules on the path -> versions that keep a symbolic "
    "value symbolic and defer to the builtin otherwise (identity on concrete values)",
    "stand-in: ValueInt(v) -> v for symbolic v (ValueInt only adds part-select indexing to int)",
    "stand-in: ValueBool.__bool__/ValueScalar.__bool__ -> bool(self.v) / bool(self.v != 0) (same result on concrete "
    "values; lets a symbolic condition fork instead of raising TypeError)",
    "stub (coverage harnesses): inspect.stack() -> cheap frame list (pyvsc only records declaration file/line from it)",
]


def _work(job):
    build, item = job
    spec = build(item)
    t0 = time.time()
    mk_standins = spec.get("standins", pyvsc_standins)
    out = {"item": item, "desc": spec.get("desc", str(item)), "sig": spec.get("sig", {}), "status": "ok"}
    try:
        with mk_standins():
            res = symex.explore(spec["harness"], theory=spec.get("theory", "int"),
                                max_paths=spec.get("max_paths", 5000), max_seconds=spec.get("max_seconds", 60),
                                expected_exc=spec.get("expected_exc", ()))
    except Exception as e:   # harness construction failed
        import traceback
        out["status"] = "harness_error"
        out["info"] = "%s: %s %s" % (type(e).__name__, e, traceback.format_exc()[-1200:])
        return out
    out.update(paths=res.paths, checks=res.checks, queries=res.queries, solver_s=res.solver_s, wall=time.time() - t0,
               inconclusive=res.inconclusive, exc_paths=res.exc_paths)
    if res.cex is None and not res.inconclusive and (res.paths == 0 or res.checks == 0):
        out["status"] = "vacuous"     # reachability twin failed: no feasible path reached an obligation
        return out
    if res.cex is not None:
        name, model, tb = res.cex
        out["cex"] = {"check": name, "inputs": model, "trace": tb}
        # replay on the real code: plain ints, no stand-ins
        failed, exc = symex.run_concrete(spec["harness"], model, spec.get("expected_exc", ()))
        if failed is None:
            out["status"] = "cex_not_reproduced"
            out["info"] = "precondition not met in replay"
        elif exc is not None:
            out["status"] = "violation"
            out["cex"]["replayed"] = "raises %s: %s" % (type(exc).__name__, exc)
        elif failed:
            out["status"] = "violation"
            out["cex"]["replayed"] = "failed: %s" % ",".join(failed)
        else:
            out["status"] = "cex_not_reproduced"
            out["info"] = "replay on concrete integers passed"
    elif res.inconclusive:
        out["status"] = "inconclusive"
    return out


def run_e3(chk, items, build, nproc=None, chunk=None, sample_every=None, replay_module=None):
    """items: picklable configs; build(item) -> spec dict(harness, theory, sig, desc, ...).  Feeds chk."""
    jobs = [(build, it) for it in items]
    results = parmap(_work, jobs, nproc=nproc, chunk=chunk)
    n = len(items)
    step = sample_every or max(1, n // 10)
    for i, (st, r) in enumerate(results):
        if st != "ok":
            chk.harness_error("worker %s on item %r: %s" % (st, items[i], str(r)[:500]))
            continue
        chk.paths += r.get("paths", 0)
        chk.q("unsat", r.get("solver_s", 0.0), r.get("queries", 0))
        s = r["status"]
        key = r["desc"]
        if s == "ok":
            chk.count(key)
            if i % step == 0:
                chk.sample({"harness": r["desc"], "paths": r["paths"], "obligations": r["checks"], "verdict": "holds"})
        elif s == "inconclusive":
            chk.count(None)
            chk.note_inconclusive("%s: %s" % (r["desc"], r["inconclusive"]))
        elif s == "vacuous":
            chk.harness_error("vacuous harness (reachability twin not violated): %s" % r["desc"])
        elif s == "harness_error":
            chk.harness_error("%s: %s" % (r["desc"], r["info"]))
        elif s == "cex_not_reproduced":
            chk.harness_error("counterexample did not reproduce on the real code: %s cex=%s (%s)" % (
                r["desc"], r.get("cex"), r.get("info")))
        elif s == "violation":
            chk.count(key)
            chk.q("sat", 0, 1)
            chk.disagreements_checked += 1
            sig = dict(r["sig"])
            sig["check"] = r["cex"]["check"].split("[")[0]
            chk.violation(sig, "%s: obligation %s fails for inputs %s (%s)" % (
                r["desc"], r["cex"]["check"], r["cex"]["inputs"], r["cex"].get("replayed")),
                {"engine": "E3", "module": replay_module, "item": r["item"], "inputs": r["cex"]["inputs"],
                 "check": r["cex"]["check"]})
    return results


def replay_e3(build, item, inputs):
    """Re-run one harness configuration on concrete inputs against the real code (no stand-ins)."""
    spec = build(item)
    failed, exc = symex.run_concrete(spec["harness"], inputs, spec.get("expected_exc", ()))
    return failed, exc


def coverage_modules():
    import importlib
    names = ["vsc.coverage", "vsc.model.coverpoint_model", "vsc.model.coverpoint_bin_array_model",
             "vsc.model.coverpoint_bin_collection_model", "vsc.model.coverpoint_bin_single_bag_model",
             "vsc.model.coverpoint_bin_single_val_model", "vsc.model.coverpoint_bin_single_range_model",
             "vsc.model.coverpoint_bin_enum_model", "vsc.model.coverpoint_bin_single_wildcard_model",
             "vsc.model.coverpoint_cross_model", "vsc.model.covergroup_model", "vsc.model.rangelist_model",
             "vsc.impl.wildcard_bin_factory", "vsc.model.expr_ref_model", "vsc.model.expr_fieldref_model",
             "vsc.model.expr_partselect_model", "vsc.model.expr_bin_model", "vsc.visitors.coverage_save_visitor"]
    return [importlib.import_module(n) for n in names]


class _FI(object):
    __slots__ = ("filename", "lineno", "function", "frame")

    def __init__(self, f):
        self.frame = f
        self.filename = f.f_code.co_filename
        self.lineno = f.f_lineno
        self.function = f.f_code.co_name


def fast_stack(context=1):
    """cheap replacement for inspect.stack() (pyvsc only reads .filename/.lineno of the first frames to record
    declaration locations; the real one reads source files on every call)"""
    import sys
    out = []
    f = sys._getframe(1)
    while f is not None and len(out) < 6:
        out.append(_FI(f))
        f = f.f_back
    return out


def coverage_standins():
    import inspect
    st = pyvsc_standins(coverage_modules())
    st.extra.append((inspect, "stack", fast_stack))
    return st


def reset_coverage_registry():
    from vsc.impl.coverage_registry import CoverageRegistry
    CoverageRegistry._inst = None
