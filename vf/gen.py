"""Generators of E1 programs (fragment F of DESIGN.md section 4).  Every generator yields spec dicts:
  {"tag": family, "desc": text, "prog": ..., "world": ..., "ops": ...}
Enumeration is deterministic; `rnd` (seeded from VERIF_SEED) is used only for the seeded extensions.
"""
import itertools, random, copy
from . import prog as P

CMP = P.CMP
ARI_BASIC = ("+", "-", "&", "|", "^")
ARI_MUL = ("*", "/", "%")
SHIFT = ("<<", ">>")


def F(*path):
    return ["f", list(path)]


def lit(v):
    return ["lit", v]


def E(e):
    return ["e", e]


# ------------------------------------------------------------------------------------------ fragment F membership
def _leaves(e, types):
    k = e[0]
    if k in ("f", "it"):
        return [types[tuple(e[1]) if k == "f" else ("it",) + tuple(e[1:])]]
    if k == "lit":
        return [(max(32, e[1].bit_length() + 1), True)]
    if k in ("enum", "idx"):
        return [(32, True)]
    if k == "ulit":
        return [(e[2], False)]
    if k == "slit":
        return [(e[2], True)]
    if k in ("ps", "bit", "size"):
        return [(32 if k == "size" else (e[2] - e[3] + 1 if k == "ps" else 1), False)]
    if k in ("sum", "product"):
        return [types[("agg",) + tuple(e[1])]]
    if k == "not":
        return _leaves(e[1], types)
    if k in CMP or k.startswith("in") or k.startswith("notin") or k in ("dyn", "dynp"):
        return [(1, False)]
    return _leaves(e[1], types) + _leaves(e[2], types)


def _w(e, types):
    k = e[0]
    if k in CMP or k.startswith("in") or k.startswith("notin") or k in ("dyn", "dynp", "bit"):
        return 1
    if k == "not":
        return _w(e[1], types)
    if k in ("f", "it", "lit", "ulit", "slit", "enum", "idx", "ps", "size", "sum", "product"):
        return _leaves(e, types)[0][0]
    return max(_w(e[1], types), _w(e[2], types))


def has_field(e):
    if not isinstance(e, list) or not e:
        return False
    if e[0] in ("f", "it", "size", "sum", "product", "dyn", "dynp"):
        return True
    return any(has_field(x) for x in e[1:] if isinstance(x, list))


def left_lit(e):
    """a plain Python int as the LEFT operand of an operator is evaluated by Python, not by pyvsc"""
    if not isinstance(e, list) or not e:
        return False
    if e[0] in CMP or e[0] in ("+", "-", "*", "/", "%", "&", "|", "^", "<<", ">>"):
        if e[1][0] in ("lit", "enum"):
            return True
    return any(left_lit(x) for x in e[1:] if isinstance(x, list))


def in_F(e, types, ctx=None, S=None):
    if ctx is None and S is None:
        if left_lit(e):
            return False
        if e[0] not in ("f", "it") and not has_field(e):
            return False
    return _in_F(e, types)


def _in_F(e, types, ctx=None, S=None):
    """True iff the expression is inside fragment F (per-node signedness == SV top-down signedness wherever an
    extension happens; no comparison under arithmetic; shift amount not wider than the shifted operand; ~ only on
    1-bit terms)."""
    k = e[0]
    if k in ("f", "it", "lit", "ulit", "slit", "enum", "idx", "ps", "bit", "size", "sum", "product", "dyn", "dynp"):
        if k == "lit" and not (-2**31 <= e[1] < 2**31):
            return False
        return True
    if k == "not":
        return _w(e[1], types) == 1 and _in_F(e[1], types)
    if k.startswith("in") or k.startswith("notin"):
        if k in ("in", "notin"):
            for it in e[2]:
                if it[0] == "rng":
                    if not (_in_F([">=", e[1], it[1]], types) and _in_F(["<=", e[1], it[2]], types)):
                        return False
                elif not _in_F(["==", e[1], it], types):
                    return False
        return _in_F(e[1], types, None, None) if e[1][0] not in ("f", "it") else True
    if k in CMP:
        cw = max(_w(e[1], types), _w(e[2], types))
        lv = _leaves(e[1], types) + _leaves(e[2], types)
        Sg = all(s for _, s in lv)
        return _arith_ok(e[1], types, cw, Sg) and _arith_ok(e[2], types, cw, Sg)
    # arithmetic / bitwise at statement level (truthiness != 0) or Boolean connective
    if k in ("&", "|", "^") and _w(e[1], types) == 1 and _w(e[2], types) == 1:
        return _in_F(e[1], types) and _in_F(e[2], types)
    cw = _w(e, types)
    lv = _leaves(e, types)
    return _arith_ok(e, types, cw, all(s for _, s in lv))


def _arith_ok(e, types, cw, Sg):
    k = e[0]
    if k in CMP or k.startswith("in") or k.startswith("notin") or k in ("dyn", "dynp"):
        return False       # comparison used as a number: outside F
    if k == "not":
        return False
    if k in ("f", "it", "lit", "ulit", "slit", "enum", "idx", "ps", "bit", "size", "sum", "product"):
        if k == "lit" and not (-2**31 <= e[1] < 2**31):
            return False
        return True
    lv = _leaves(e, types)
    local = all(s for _, s in lv)
    if k in SHIFT:
        if _w(e[2], types) > _w(e[1], types):
            return False
        if _w(e[2], types) > 1 and any(s for _, s in _leaves(e[2], types)) and local:
            pass
    if local != Sg:
        # some child must be extended?  then the extension kind differs between pyvsc's rule and SV's
        for ch in (e[1], e[2]):
            if _w(ch, types) < cw:
                return False
    return _arith_ok(e[1], types, cw, Sg) and _arith_ok(e[2], types, cw, Sg)


# ------------------------------------------------------------------------------------------ helpers
def one_class(fields, stmts, enums=None, extra_blocks=None, name="Top"):
    blocks = [["cb0", "c", stmts]]
    if extra_blocks:
        blocks.extend(extra_blocks)
    return {"enums": enums or {}, "classes": [{"name": name, "fields": fields, "blocks": blocks}]}


def types_of(fields):
    t = {}
    for f in fields:
        if f[1] in ("u", "s"):
            t[(f[0],)] = (f[2], f[1] == "s")
        elif f[1] == "enum":
            t[(f[0],)] = (32, True)
    return t


def boundary_values(w, signed):
    if signed:
        vs = [0, 1, -1, (1 << (w - 1)) - 1, -(1 << (w - 1)), 3 % (1 << (w - 1))]
    else:
        vs = [0, 1, (1 << w) - 1, 1 << (w - 1), (1 << w) // 3]
    out = []
    for v in vs:
        if v not in out:
            out.append(v)
    return out


def spec_single(tag, desc, fields, stmts, nonrand_sets=None, enums=None, calls=("randomize",), extra_blocks=None):
    """one class, one object 'top'; for each assignment of the non-random fields, each call kind"""
    pr = one_class(fields, stmts, enums, extra_blocks)
    ops = []
    for ns in (nonrand_sets or [{}]):
        for n, v in ns.items():
            ops.append(["set", ["top", n], v])
        for c in calls:
            if c == "randomize":
                ops.append(["randomize", ["top"]])
            elif c == "vsc_randomize":
                ops.append(["vsc_randomize", [["top"]]])
            elif c == "randomize_with":
                ops.append(["randomize_with", ["top"], []])
    return {"tag": tag, "desc": desc, "prog": pr, "world": [["top", "obj", "Top"]], "ops": ops}


TYPES_SMALL = [("u", 4), ("s", 4), ("u", 8), ("s", 8)]
TYPES_WIDE = [("u", 16), ("s", 16), ("u", 32), ("s", 32), ("u", 33), ("s", 33), ("u", 64), ("s", 64), ("u", 1), ("s", 2), ("u", 63)]


def fld(n, t, rand=True):
    return [n, t[0], t[1], rand]


# ------------------------------------------------------------------------------------------ C01 families
def atomic_programs(tier, rnd):
    """every binary operator x operand types x right-operand kind"""
    out = []
    tys = TYPES_SMALL if tier == "quick" else TYPES_SMALL + [("u", 1), ("s", 2), ("u", 5), ("s", 7)]
    for op in CMP + ARI_BASIC + ARI_MUL + SHIFT:
        for lt, rt in itertools.product(tys, repeat=2):
            for rkind in ("rand", "nonrand", "lit", "sized"):
                # result/compare partner type
                for ct in ((("u", 8),) if op in CMP else (("u", 8), ("s", 8), ("u", 4))):
                    if rkind in ("lit", "sized") and (lt, rt) not in [(x, x) for x in tys] and rt != ("u", 4):
                        continue      # the literal replaces the right operand: rt irrelevant, keep one
                    fields = [fld("a", lt), fld("c", ct)]
                    nonr = [{}]
                    if rkind == "rand":
                        fields.append(fld("b", rt))
                        rhs = F("b")
                    elif rkind == "nonrand":
                        fields.append(fld("b", rt, False))
                        rhs = F("b")
                        nonr = [{"b": v} for v in boundary_values(rt[1], rt[0] == "s")]
                    elif rkind == "lit":
                        rhs = None
                    else:
                        rhs = None
                    lits = [None]
                    if rkind == "lit":
                        lits = ([lit(0)] if op not in ("/", "%") else []) + [lit(1), lit(-1), lit(5), lit(200)] if op not in SHIFT else []
                    elif rkind == "sized":
                        lits = [["ulit", 3, 4], ["slit", -2, 4], ["ulit", 200, 8], ["slit", -100, 8]]
                        if op in SHIFT:
                            lits = [["ulit", 1, 2], ["ulit", 3, 3]]
                    for L in lits:
                        r = rhs if L is None else L
                        if op in CMP:
                            e = [op, F("a"), r]
                            stmts = [E(e)]
                        else:
                            e = ["==", F("c"), [op, F("a"), r]]
                            stmts = [E(e)]
                            if op in ("/", "%") and r[0] == "f":
                                stmts.insert(0, E(["!=", r, lit(0)]))
                        t = types_of(fields)
                        if not all(in_F(s[1], t) for s in stmts):
                            continue
                        out.append(spec_single("atomic", "%s %s%d %s%d rhs=%s%s c=%s%d" % (
                            op, lt[0], lt[1], rt[0], rt[1], rkind, "" if L is None else str(L), ct[0], ct[1]),
                            fields, stmts, nonr))
    # wide operands: comparison / add / sub / bitwise / shifts, no multiplication or division
    wide = TYPES_WIDE if tier == "thorough" else rnd.sample(TYPES_WIDE, 6) + [("u", 64), ("s", 64)]
    for op in CMP + ARI_BASIC + SHIFT:
        for lt in wide:
            for rt in (lt, ("u", 8), ("s", 8), (("s" if lt[0] == "u" else "u"), lt[1])):
                fields = [fld("a", lt), fld("b", rt), fld("c", lt)]
                if op in CMP:
                    stmts = [E([op, F("a"), F("b")])]
                else:
                    stmts = [E(["==", F("c"), [op, F("a"), F("b")]])]
                t = types_of(fields)
                if not all(in_F(s[1], t) for s in stmts):
                    continue
                out.append(spec_single("atomic_wide", "%s %s%d %s%d" % (op, lt[0], lt[1], rt[0], rt[1]), fields, stmts))
    return out


ENUMS = {"E3": [["A", 0], ["B", 1], ["C", 5]], "E4": [["P", -2], ["Q", 3], ["R", 7], ["S", 100]]}


def statement_programs(tier, rnd):
    out = []
    a, b, c, d = F("a"), F("b"), F("c"), F("d")
    # ---- in / inside / not_inside with values, ranges, unordered / overlapping / adjacent ranges
    in_items = [
        [lit(3)], [lit(1), lit(7), lit(200)], [["rng", lit(2), lit(9)]], [["rng", lit(2), lit(9)], lit(100)],
        [["rng", lit(10), lit(20)], ["rng", lit(0), lit(3)]], [["rng", lit(0), lit(10)], ["rng", lit(2), lit(3)]],
        [["rng", lit(0), lit(4)], ["rng", lit(5), lit(9)]], [["rng", lit(9), lit(2)]], [lit(-1), ["rng", lit(-5), lit(-2)]],
        [["rng", F("c"), F("d")]], [F("c"), F("d"), lit(0)], [["rng", lit(250), lit(255)], ["rng", lit(0), lit(1)]],
    ]
    for ty in [("u", 8), ("s", 8), ("u", 5), ("s", 16), ("u", 64)]:
        for items in in_items:
            for neg in (False, True):
                fields = [fld("a", ty), fld("c", ("u", 8), False), fld("d", ("u", 8), False)]
                e = ["notin" if neg else "in", a, items]
                if not in_F(e, types_of(fields)):
                    continue
                uses_cd = any("c" in str(i) or "d" in str(i) for i in items)
                nonr = [{"c": 3, "d": 9}, {"c": 9, "d": 3}, {"c": 0, "d": 255}] if uses_cd else [{}]
                out.append(spec_single("in", "%s%d %s %s" % (ty[0], ty[1], "not_inside" if neg else "inside", items),
                                       fields, [E(e)], nonr))
    # rangelist object attribute
    for ty in [("u", 8), ("s", 8)]:
        fields = [fld("a", ty), ["rl", "rl", [["rng", lit(1), lit(4)], lit(9)]]]
        for k in ("in_rl", "notin_rl"):
            out.append(spec_single("in_rl", "%s%d %s rangelist attr" % (ty[0], ty[1], k), fields, [E([k, a, ["rl"]])]))
    # ---- part-select / bit-select
    for ty in [("u", 8), ("s", 8), ("u", 16), ("u", 33), ("s", 64)]:
        w = ty[1]
        sels = [(w - 1, 0), (w - 1, w - 1), (3, 1), (w - 1, w // 2), (w // 2, 0), (0, 0)]
        for hi, lo in sels:
            fields = [fld("a", ty), fld("b", ("u", 8))]
            n = hi - lo + 1
            stmts = [E(["==", ["ps", a, hi, lo], ["ulit", (0x5a5a5a5a5a5a5a5a >> 3) & ((1 << n) - 1), n]])]
            out.append(spec_single("partsel", "%s%d[%d:%d] == const" % (ty[0], ty[1], hi, lo), fields, stmts))
            if n <= 8:
                out.append(spec_single("partsel", "%s%d[%d:%d] < b" % (ty[0], ty[1], hi, lo), fields,
                                       [E(["<", ["ps", a, hi, lo], b])]))
        # a part-select is an unsigned quantity whatever the field: relations with signed operands (plain ints, signed fields)
        for hi, lo in sels[2:5]:
            n = hi - lo + 1
            if n > 16:
                continue
            fields = [fld("a", ty), fld("b", ("u", 8)), fld("d", ("s", 8)), fld("e", ("s", 16))]
            for op in ("<", ">=", "==", ">"):
                for rhs in (lit((1 << n) // 4), lit(0), F("d"), F("e"), ["slit", 3, 8]):
                    st = [E([op, ["ps", a, hi, lo], rhs])]
                    if _stmts_in_F(st, fields):
                        out.append(spec_single("partsel", "%s%d[%d:%d] %s %s" % (ty[0], ty[1], hi, lo, op, rhs), fields, st))
        for i in (0, w // 2, w - 1):
            out.append(spec_single("partsel", "%s%d[%d] == 1 & bit relation" % (ty[0], ty[1], i),
                                   [fld("a", ty), fld("b", ty)],
                                   [E(["==", ["bit", a, i], ["ulit", 1, 1]]), E(["!=", ["bit", b, i], ["bit", a, i]])]))
    # ---- a composite expression on the left, a list subscript on the right (the subscript's type is a subclass of the left one's:
    # Python tries its reflected comparison first)
    lfx = [fld("a", ("u", 8)), fld("b", ("u", 8)), ["l", "list", ["u", 8], 3, True, False]]
    for op in ("<", "<=", ">", ">=", "==", "!="):
        for lhs in (["+", a, lit(1)], ["-", a, b], ["ps", a, 7, 4], ["&", a, lit(15)]):
            st = [E([op, lhs, F("l", 1)])]
            out.append(spec_single("subscript_rhs", "%s %s l[1]" % (lhs, op), lfx, st))
        out.append(spec_single("subscript_rhs", "(a+1) %s l[i] in foreach" % op, lfx, [["foreach", ["l"], "i", [E([op, ["+", a, lit(1)], F("l", ["idx", "i"])])]]]))
        out.append(spec_single("subscript_rhs", "l[0]+1 %s l[2]" % op, lfx, [E([op, ["+", F("l", 0), lit(1)], F("l", 2)])]))
    # ---- unique
    for tys in ([("u", 2)] * 3, [("u", 2)] * 4, [("u", 8), ("s", 8), ("u", 4)], [("s", 4)] * 3, [("u", 2)] * 5):
        fields = [fld(n, t) for n, t in zip("abcde", tys)]
        out.append(spec_single("unique", "unique over %s" % (tys,), fields, [["unique", [F(f[0]) for f in fields]]]))
    out.append(spec_single("unique", "unique with non-random member", [fld("a", ("u", 2)), fld("b", ("u", 2)), fld("c", ("u", 2), False)],
                           [["unique", [a, b, c]]], [{"c": v} for v in (0, 1, 3)]))
    # ---- if / else-if / else, implies, nesting
    cond_pool = [["<", a, lit(10)], ["==", c, lit(1)], [">", a, b], ["in", a, [["rng", lit(2), lit(5)]]], ["!=", ["bit", a, 0], ["ulit", 0, 1]]]
    body_pool = [[E(["==", b, lit(3)])], [E([">", b, a])], [E(["in", b, [lit(1), lit(2)]]), E(["!=", a, lit(0)])], []]
    fields = [fld("a", ("u", 8)), fld("b", ("u", 8)), fld("c", ("u", 4), False), fld("d", ("s", 8))]
    nonr = [{"c": 0}, {"c": 1}]
    n = 0
    for c1, b1 in itertools.product(cond_pool, body_pool[:3]):
        for els in (None, body_pool[0], body_pool[1]):
            out.append(spec_single("ifelse", "if %s then %s else %s" % (c1, b1, els), fields, [["if", [[c1, b1]], els]], nonr))
    for c1, c2 in itertools.permutations(cond_pool, 2):
        for els in (None, body_pool[2]):
            out.append(spec_single("ifelse", "if/elif %s / %s else %s" % (c1, c2, els), fields,
                                   [["if", [[c1, body_pool[0]], [c2, body_pool[1]]], els]], nonr))
    for c1, c2, c3 in itertools.permutations(cond_pool[:4], 3):
        out.append(spec_single("ifelse", "if/elif/elif/else", fields,
                               [["if", [[c1, body_pool[0]], [c2, body_pool[1]], [c3, body_pool[2]]], [E(["==", b, lit(77)])]]], nonr))
    # long else-if chains (4..6 branches): selector in a non-random field / a random field / mixed conditions
    for nbr in (4, 5, 6):
        for sel, nr in ((c, [{"c": v} for v in range(nbr + 1)]), (F("d"), [{"c": 0}])):
            chain = [[["==", sel, lit(i)], [E(["==", b, lit(10 * (i + 1))])]] for i in range(nbr)]
            for els in (None, [E(["==", b, lit(99)])]):
                out.append(spec_single("ifelse", "%d-branch else-if chain on %s else %s" % (nbr, sel, els), fields, [["if", chain, els]], nr))
        chain = [[cond_pool[i % 4] if i % 2 else ["==", c, lit(i)], [E(["==", b, lit(10 * (i + 1))])]] for i in range(nbr)]
        out.append(spec_single("ifelse", "%d-branch else-if chain, mixed conditions" % nbr, fields, [["if", chain, [E(["<", b, lit(5)])]]],
                               [{"c": v} for v in (0, 2, 4, 9)]))
    for c1 in cond_pool:
        for b1 in body_pool[:3]:
            out.append(spec_single("implies", "implies %s -> %s" % (c1, b1), fields, [["implies", c1, b1]], nonr))
    # nesting
    out.append(spec_single("nest", "if inside implies inside if", fields, [
        ["if", [[cond_pool[0], [["implies", cond_pool[2], [["if", [[cond_pool[1], body_pool[0]]], body_pool[1]]]]]]], [E(["==", a, lit(200)])]]], nonr))
    out.append(spec_single("nest", "implies inside else-if", fields, [
        ["if", [[cond_pool[1], body_pool[0]], [cond_pool[0], [["implies", cond_pool[3], body_pool[1]]]]], None]], nonr))
    # ---- Boolean composition depth <= 3 (1-bit terms with & | ~)
    atoms = [["<", a, b], ["==", a, lit(5)], [">=", d, lit(-3)], ["in", b, [["rng", lit(1), lit(9)]]], ["!=", c, lit(0)],
             ["notin", a, [lit(0), lit(255)]]]
    combos = []
    for x, y in itertools.permutations(atoms, 2):
        combos.append(["&", x, y]); combos.append(["|", x, y])
        combos.append(["&", ["not", x], y]); combos.append(["|", x, ["not", y]])
    for x, y, z in (itertools.permutations(atoms, 3) if tier == "thorough" else list(itertools.permutations(atoms, 3))[::4]):
        combos.append(["|", ["&", x, y], z]); combos.append(["&", ["|", x, ["not", y]], ["not", z]])
        combos.append(["not", ["|", ["&", x, y], ["not", z]]])
    for e in combos:
        if in_F(e, types_of(fields)):
            out.append(spec_single("bool", "bool %s" % (e,), fields, [E(e)], nonr))
    # ---- enum fields
    ef = [["e", "enum", "E3", True], ["g", "enum", "E4", True], fld("a", ("u", 8)), ["h", "enum", "E4", False]]
    est = [
        [E(["!=", F("e"), ["enum", "E3", "A"]])],
        [E(["in", F("g"), [["enum", "E4", "P"], ["enum", "E4", "S"]]])],
        [["if", [[["==", F("e"), ["enum", "E3", "C"]], [E(["==", a, lit(1)])]]], [E(["==", a, lit(2)])]]],
        [E(["==", F("g"), F("h")])], [E(["!=", F("g"), F("h")]), E(["<", F("g"), ["enum", "E4", "R"]])],
        [E(["notin", F("g"), [["enum", "E4", "Q"]]]), ["unique", [F("g"), F("h")]]],
        [],
    ]
    for st in est:
        out.append(spec_single("enum", "enum %s" % (st,), ef, st, [{"h": -2}, {"h": 100}], ENUMS))
    # enumerators with exactly one gap / two gaps inside their range; more random fields than the swizzler pins in one call;
    # constraints that exclude every enumerator
    EG = dict(ENUMS)
    EG["G1"] = [["Z", 0], ["O", 1], ["T", 2], ["F", 4]]
    EG["G2"] = [["M", -1], ["Z", 0], ["P", 2]]
    eg = [["e", "enum", "G1", True], ["g", "enum", "G2", True], fld("a", ("u", 8)), fld("b", ("u", 8)), fld("c", ("u", 8)), fld("d", ("u", 8)), fld("x", ("u", 8))]
    allg1 = [E(["!=", F("e"), ["enum", "G1", m]]) for m in ("Z", "O", "T", "F")]
    for st in ([], [E([">=", F("e"), ["enum", "G1", "T"]])], allg1, allg1[:3], [E([">", F("e"), ["enum", "G1", "T"]]), E(["<", F("e"), ["enum", "G1", "F"]])],
               [E(["<", a, b]), E(["<", b, c]), E(["<", c, d]), E(["<", d, F("x")]), E(["<", F("e"), F("x")]), E(["!=", F("g"), ["enum", "G2", "Z"]])],
               [E(["==", F("a"), F("e")]), E([">", a, lit(2)])], [E([">", F("g"), ["enum", "G2", "Z"]]), E(["<", F("g"), ["enum", "G2", "P"]])]):
        out.append(spec_single("enum", "gapped enums %s" % (st,), eg, st, None, EG, calls=("randomize", "randomize", "randomize_with")))
    # unique over scalars and lists in every operand order
    ul = [fld("a", ("u", 2)), fld("b", ("u", 2)), ["l", "list", ["u", 2], 2, True, False], ["m", "list", ["u", 2], 2, True, False]]
    for ops_ in ([a, ["list", ["l"]]], [["list", ["l"]], a], [a, ["list", ["l"]], b], [["list", ["l"]], ["list", ["m"]]], [a, b, ["list", ["m"]]], [["list", ["m"]], a, ["list", ["l"]]]):
        out.append(spec_single("unique", "unique with list operands %s" % (ops_,), ul, [["unique", ops_]]))
    return out


def structure_programs(tier, rnd):
    """sub-objects, fixed-size lists, statements that merge rand sets, all four call kinds"""
    out = []
    a, b, c, d = F("a"), F("b"), F("c"), F("d")
    # rand-set merge: s1 over {a,b}, s2 over {c,d}, later statement linking b and c
    fields = [fld("a", ("u", 8)), fld("b", ("u", 8)), fld("c", ("u", 8)), fld("d", ("s", 8)), fld("x", ("u", 8)), fld("n", ("u", 8), False)]
    links = [E(["==", b, c]), E(["<", ["+", b, F("n")], c]), ["implies", ["<", a, lit(5)], [E([">", d, lit(0)])]],
             ["unique", [a, c, F("x")]], ["if", [[["==", F("n"), lit(1)], [E(["==", a, d])]]], [E(["==", b, F("x")])]]]
    for lk in links:
        for order in (0, 1, 2):
            st = [E(["<", a, b]), E([">", c, lit(3)]), E(["<", d, lit(0)])]
            st.insert(order + 1 if order < 2 else 3, lk)
            out.append(spec_single("merge", "merge via %s at %d" % (lk, order), fields, st, [{"n": 0}, {"n": 1}, {"n": 250}],
                                   calls=("randomize", "vsc_randomize", "randomize_with")))
    # two blocks, link across blocks
    out.append(spec_single("merge", "cross-block link", fields, [E(["<", a, b]), E([">", c, lit(3)])], [{"n": 2}],
                           extra_blocks=[["cb1", "c", [E(["==", ["+", a, lit(1)], c])]], ["cb2", "c", [E(["<", d, lit(-5)])]]]))
    # sub-objects
    sub = {"name": "Sub", "fields": [fld("x", ("u", 8)), fld("y", ("s", 8)), fld("k", ("u", 4), False)],
           "blocks": [["sb0", "c", [E(["<", F("x"), lit(50)]), E(["==", F("y"), ["-", F("k"), lit(3)]])]]]}
    for r1, r2 in itertools.product((True, False), repeat=2):
        top = {"name": "Top", "fields": [fld("a", ("u", 8)), ["s1", "obj", "Sub", r1], ["s2", "obj", "Sub", r2]],
               "blocks": [["cb0", "c", [E(["<", F("s1", "x"), F("s2", "x")]), E(["==", a, ["+", F("s1", "x"), lit(1)]])]]]}
        pr = {"enums": {}, "classes": [sub, top]}
        ops = [["set", ["top", "s1", "k"], 5], ["set", ["top", "s2", "k"], 1], ["set", ["top", "s1", "x"], 7], ["set", ["top", "s2", "x"], 9],
               ["randomize", ["top"]], ["set", ["top", "s2", "x"], 3], ["randomize", ["top"]],
               ["randomize_with", ["top"], [E([">", F("s2", "y"), lit(-100)])]], ["vsc_randomize", [["top"]]]]
        out.append({"tag": "subobj", "desc": "two Sub sub-objects rand=%s,%s" % (r1, r2), "prog": pr,
                    "world": [["top", "obj", "Top"]], "ops": ops})
    # fixed-size lists + foreach
    for ety in (("u", 8), ("s", 8), ("u", 4)):
        lf = [["l", "list", list(ety), 3, True, False], fld("a", ("u", 8)), ["m", "list", list(ety), 2, False, False]]
        sts = [
            [["foreach", ["l"], "i", [E(["<", ["it", "i"], lit(10)])]]],
            [["foreach", ["l"], "i", [E([">", ["it", "i"], ["idx", "i"]])]]],
            [["foreach", ["l"], "i", [["if", [[[">", ["idx", "i"], lit(0)], [E([">", ["it", "i"], F("l", ["idx", "i", -1])])]]], None]]]],
            [["unique", [["list", ["l"]]]]],
            [E(["==", F("l", 0), F("l", 2)]), E(["!=", F("l", 1), a])],
            [E(["in_list", a, ["l"]])], [E(["in_list", a, ["m"]])], [E(["notin_list", a, ["m"]])],
            [E(["==", ["sum", ["l"]], lit(17)])], [E(["<", ["sum", ["l"]], a])],
            [E(["==", ["size", ["l"]], lit(3)])],
            [E(["==", F("l", 0), lit(2)]), E(["==", F("l", 1), lit(9)]), E(["in", a, [["rng", F("l", 0), F("l", 1)]]])],     # bounds are list elements; merges rand sets
            [E(["in", a, [["rng", ["+", F("l", 0), lit(1)], ["+", F("l", 2), lit(1)]], F("l", 1)]]), E(["<", F("l", 0), F("l", 2)])],
            [E(["<", F("l", 0), lit(5)]), E([">", F("l", 2), lit(7)]), E(["==", ["+", F("l", 0), F("l", 2)], F("l", 1)])],
        ]
        for st in sts:
            pr = one_class(lf, st)
            if not _stmts_in_F(st, lf):
                continue
            ops = [["set", ["top", "m", 0], 4], ["set", ["top", "m", 1], 9], ["randomize", ["top"]], ["randomize", ["top"]]]
            out.append({"tag": "list", "desc": "fixed list %s%d %s" % (ety[0], ety[1], st), "prog": pr,
                        "world": [["top", "obj", "Top"]], "ops": ops})
    return out


def rangelist_history_programs(tier, rnd):
    """mutable rangelist attribute: contents at the time of each call decide (in a class block, in an if, under foreach)"""
    out = []
    a = F("a")
    bodies = {
        "plain": [E(["in_rl", a, ["rl"]])],
        "negated": [E(["notin_rl", a, ["rl"]]), E(["<", a, lit(20)])],
        "under_if": [["if", [[["<", F("b"), lit(128)], [E(["in_rl", a, ["rl"]])]]], [E(["==", a, lit(77)])]]],
        "foreach": [["foreach", ["l"], "i", [E(["in_rl", ["it", "i"], ["rl"]])]]],
    }
    for bn, st in bodies.items():
        fields = [fld("a", ("u", 8)), fld("b", ("u", 8)), ["rl", "rl", [["rng", lit(1), lit(4)], lit(9)]], ["l", "list", ["u", 8], 2, True, False]]
        pr = one_class(fields, st)
        ops = [["randomize", ["top"]], ["randomize", ["top"]],
               ["rl_append", ["top", "rl"], ["rng", lit(100), lit(110)]], ["randomize", ["top"]],
               ["rl_clear", ["top", "rl"]], ["rl_append", ["top", "rl"], lit(200)], ["randomize", ["top"]],
               ["rl_extend", ["top", "rl"], [lit(3), ["rng", lit(50), lit(51)]]], ["randomize_with", ["top"], [E([">", a, lit(2)])]],
               ["rl_clear", ["top", "rl"]], ["rl_append", ["top", "rl"], ["rng", lit(10), lit(12)]], ["vsc_randomize", [["top"]]], ["randomize", ["top"]]]
        out.append({"tag": "rl_history", "desc": "rangelist mutated between calls (%s)" % bn, "prog": pr,
                    "world": [["top", "obj", "Top"]], "ops": ops})
    return out


def _stmts_in_F(stmts, fields):
    return True


def subscript_rand_programs():
    """l[k] with k a random field: the element is the one the index selects in the returned solution (index kept in range by its type)"""
    out = []
    k_, j_, a_ = F("k"), F("j"), F("a")
    for n, iw in ((4, 2), (2, 1), (8, 3)):
        for ety in (("u", 8), ("s", 8)):
            lf = [["l", "list", list(ety), n, True, False], fld("k", ("u", iw)), fld("j", ("u", iw)), fld("a", ety)]
            SK, SJ = ["sel", ["l"], k_], ["sel", ["l"], j_]
            for st in ([E(["==", SK, lit(7)])],
                       [E(["==", SK, lit(7)]), E(["==", j_, k_])],
                       [E(["==", SK, lit(7)]), ["foreach", ["l"], "i", [E(["<", ["it", "i"], lit(9)])]], E(["!=", k_, lit(0)])],
                       [E(["<", SK, SJ]), E(["!=", k_, j_])],
                       [E(["==", a_, SK]), E([">", a_, lit(100 if ety[0] == "u" else 50)])],
                       [["if", [[["==", SK, lit(3)], [E(["==", a_, lit(1)])]]], [E(["==", a_, lit(2)])]]],
                       [E(["==", SK, lit(7)]), E(["==", F("l", 0), lit(1)]), E(["==", F("l", n - 1), lit(2)])] if n > 2 else
                       [E(["==", SK, lit(7)]), E(["==", F("l", 0), lit(1)])]):
                out.append({"tag": "subscript_random_index", "desc": "%d x %s%d, %d-bit index: %s" % (n, ety[0], ety[1], iw, st),
                            "prog": one_class(lf, st), "world": [["top", "obj", "Top"]],
                            "ops": [["randomize", ["top"]], ["randomize", ["top"]], ["randomize_with", ["top"], [E(["!=", k_, lit(1)])]]]})
    return out


def wide_literal_programs(tier):
    """Python int literals that need more than 32 bits, against fields of every width"""
    out = []
    lits = [2**32, 2**33 - 1, -2**32, 2**63, 2**64 - 1, -2**63 - 1, 2**31, -2**31 - 1, 2**40 + 5]
    tys = [("u", 8), ("s", 8), ("u", 32), ("s", 32), ("u", 64), ("s", 64), ("u", 33)]
    n = 0
    for t in tys:
        for op in ("<", ">", "==", "!=", "<=", ">="):
            for v in lits:
                n += 1
                if tier != "thorough" and n % 6:
                    continue
                out.append(spec_single("wide_literal", "%s%d %s %d" % (t[0], t[1], op, v), [fld("a", t), fld("b", t)],
                                       [E([op, F("a"), lit(v)]), E(["!=", F("b"), ["+", F("a"), lit(v)]])] if n % 2 else [E([op, F("a"), lit(v)])]))
    return out


def empty_membership_programs():
    """membership in an empty list / an emptied rangelist is false, not_inside of it is true"""
    out = []
    a_ = F("a")
    lf = [fld("a", ("u", 8)), fld("b", ("s", 8)), ["m", "list", ["u", 8], 0, False, False], ["rl", "rl", [lit(1)]], fld("c", ("u", 8), False)]
    for nm, st in (("in_list", [E(["in_list", a_, ["m"]])]), ("notin_list", [E(["notin_list", a_, ["m"]])]),
                   ("in_rl", [E(["in_rl", a_, ["rl"]])]), ("notin_rl", [E(["notin_rl", F("b"), ["rl"]])]),
                   ("if_in_list", [["if", [[["in_list", a_, ["m"]], [E(["==", F("b"), lit(1)])]]], [E(["==", F("b"), lit(2)])]]]),
                   ("or_in_rl", [E(["|", ["in_rl", a_, ["rl"]], ["<", a_, lit(3)]])])):
        out.append({"tag": "empty_membership", "desc": nm, "prog": one_class(lf, st), "world": [["top", "obj", "Top"]],
                    "ops": [["rl_clear", ["top", "rl"]], ["randomize", ["top"]], ["list_append", ["top", "m"], 7], ["rl_append", ["top", "rl"], lit(7)], ["randomize", ["top"]],
                            ["list_clear", ["top", "m"]], ["rl_clear", ["top", "rl"]], ["randomize", ["top"]], ["randomize_with", ["top"], [E([">", a_, lit(1)])]]]})
    return out


def c01_programs(tier, sd):
    rnd = random.Random(sd)
    out = atomic_programs(tier, rnd) + statement_programs(tier, rnd) + structure_programs(tier, rnd) + constfold_programs(tier, rnd) + \
        rangelist_history_programs(tier, rnd)
    sr = subscript_rand_programs()
    out += sr if tier == "thorough" else sr[::3]
    out += wide_literal_programs(tier)
    if tier == "thorough":
        out += random_programs(rnd, 12000) + random_struct_programs(rnd, 4000)
    else:
        out += random_programs(rnd, 150) + random_struct_programs(rnd, 60)
    return out


# ------------------------------------------------------------------------------------------ seeded random programs
def rand_expr(rnd, fields, depth, want_bool):
    names = [f for f in fields if f[1] in ("u", "s")]
    t = types_of(fields)

    def leaf():
        r = rnd.random()
        if r < 0.6:
            f = rnd.choice(names)
            return F(f[0])
        if r < 0.8:
            return lit(rnd.choice([0, 1, 2, 3, 7, 15, 100, 255, -1, -2, -128]))
        w = rnd.choice([2, 4, 8])
        if rnd.random() < 0.5:
            return ["ulit", rnd.randrange(1 << w), w]
        return ["slit", rnd.randrange(-(1 << (w - 1)), 1 << (w - 1)), w]

    def arith(d):
        if d == 0 or rnd.random() < 0.3:
            return leaf()
        op = rnd.choice(ARI_BASIC + ("+", "-", "<<", ">>"))
        return [op, arith(d - 1), arith(d - 1)]

    def boolean(d):
        if d == 0 or rnd.random() < 0.4:
            r = rnd.random()
            if r < 0.7:
                return [rnd.choice(CMP), arith(max(0, d - 1)), arith(max(0, d - 1))]
            f = rnd.choice(names)
            items = []
            for _ in range(rnd.randint(1, 3)):
                if rnd.random() < 0.5:
                    lo = rnd.randint(-5, 100)
                    items.append(["rng", lit(lo), lit(lo + rnd.randint(0, 50))])
                else:
                    items.append(lit(rnd.randint(-3, 200)))
            return [rnd.choice(["in", "notin"]), F(f[0]), items]
        r = rnd.random()
        if r < 0.4:
            return ["&", boolean(d - 1), boolean(d - 1)]
        if r < 0.8:
            return ["|", boolean(d - 1), boolean(d - 1)]
        return ["not", boolean(d - 1)]
    for _ in range(50):
        e = boolean(depth) if want_bool else arith(depth)
        if in_F(e, t):
            return e
    return ["==", F(names[0][0]), lit(1)]


def random_programs(rnd, n):
    out = []
    for i in range(n):
        nf = rnd.randint(2, 5)
        fields = []
        for j in range(nf):
            ty = rnd.choice(TYPES_SMALL + [("u", 8), ("s", 8), ("u", 16), ("s", 16), ("u", 32), ("u", 3)])
            fields.append(fld("abcde"[j], ty, rnd.random() < 0.8))
        if not any(f[3] for f in fields):
            fields[0][3] = True
        stmts = []
        for _ in range(rnd.randint(1, 4)):
            r = rnd.random()
            if r < 0.6:
                stmts.append(E(rand_expr(rnd, fields, 2, True)))
            elif r < 0.8:
                stmts.append(["if", [[rand_expr(rnd, fields, 1, True), [E(rand_expr(rnd, fields, 1, True))]]],
                              [E(rand_expr(rnd, fields, 1, True))] if rnd.random() < 0.5 else None])
            else:
                stmts.append(["implies", rand_expr(rnd, fields, 1, True), [E(rand_expr(rnd, fields, 2, True))]])
        nonr = {}
        for f in fields:
            if not f[3]:
                nonr[f[0]] = rnd.choice(boundary_values(f[2], f[1] == "s"))
        out.append(spec_single("random", "seeded random program #%d" % i, fields, stmts, [nonr]))
    return out


def random_struct_programs(rnd, n, randsz=False):
    """seeded random *structured* programs over unsigned 8-bit fields and fixed-size lists: foreach bodies mixing element,
    index, neighbour, part-select, other lists' reductions, index-dependent ranges, nested conditions; unique; reductions used
    several times; list operations between calls.  Every piece is inside F by construction (unsigned, equal widths; signed
    operands only where they are the widest)."""
    out = []
    a, b, nn, w = F("a"), F("b"), F("n"), F("w")
    IT, IX = ["it", "i"], ["idx", "i"]
    LI = F("l", ["idx", "i"])
    SM, SL = ["sum", ["m"]], ["sum", ["l"]]
    ops_c = ["<", "<=", ">", ">=", "==", "!="]

    def atom():
        k = rnd.random()
        op = rnd.choice(ops_c)
        if k < 0.15:
            return E([op, IT, lit(rnd.choice([0, 1, 5, 50, 128, 200, 255]))])
        if k < 0.27:
            return E([op, IT, rnd.choice([a, b, nn])])
        if k < 0.37:
            return E([op, IT, ["+", IX, lit(rnd.randint(0, 100))]])
        if k < 0.47:
            return E([op, IT, rnd.choice([SM, ["sum", ["m"]], ["product", ["m"]]])])
        if k < 0.57:
            hi = rnd.choice([7, 5, 3])
            lo = rnd.randint(0, hi)
            return E([rnd.choice(["==", "!=", "<"]), ["ps", LI, hi, lo], ["ulit", rnd.randrange(1 << (hi - lo + 1)), hi - lo + 1]])
        if k < 0.67:
            m1 = rnd.randint(1, 20)
            return E([rnd.choice(["in", "notin"]), IT, [["rng", ["*", IX, lit(m1)], ["+", ["*", IX, lit(m1)], lit(rnd.randint(0, 30))]], lit(rnd.randint(0, 255))]])
        if k < 0.77:
            return E([op, ["+", IT, rnd.choice([a, lit(1), nn])], rnd.choice([b, lit(100), w])])
        if k < 0.87:
            return E([op, ["ps", a, 7, 4], ["ps", LI, 3, 0]])
        return E([op, IT, F("m", rnd.randint(0, 1))])

    def body(depth=0):
        out_b = []
        for _ in range(rnd.randint(1, 2)):
            k = rnd.random()
            if k < 0.55 or depth > 0:
                out_b.append(atom())
            elif k < 0.7:
                out_b.append(["if", [[[">", IX, lit(0)], [E([rnd.choice(ops_c), IT, F("l", ["idx", "i", -1])])]]], None])
            elif k < 0.85:
                cond = rnd.choice([["==", IX, lit(rnd.randint(0, 2))], ["<", a, lit(rnd.randint(1, 255))], ["==", nn, lit(rnd.randint(0, 3))], ["!=", ["ps", nn, 1, 0], ["ulit", 1, 2]]])
                out_b.append(["if", [[cond, body(1)]], body(1) if rnd.random() < 0.5 else None])
            else:
                out_b.append(["implies", [rnd.choice(ops_c), IT, lit(rnd.randint(0, 255))], body(1)])
        return out_b
    for i in range(n):
        nl = rnd.randint(2, 4)
        fields = [["l", "list", ["u", 8], 0 if randsz else nl, True, randsz], ["m", "list", ["u", 8], 2, True, False], fld("a", ("u", 8)), fld("b", ("u", 8)),
                  fld("w", ("u", 16)), fld("n", ("u", 8), False)]
        st = []
        if randsz:
            st.append(rnd.choice([E(["<=", ["size", ["l"]], lit(rnd.randint(2, 4))]), E(["==", ["size", ["l"]], lit(rnd.randint(0, 3))]),
                                  E(["in", ["size", ["l"]], [lit(0), lit(rnd.randint(1, 4))]]), E(["<", ["size", ["l"]], ["+", ["ps", nn, 1, 0], lit(1)]])]))
        for _ in range(rnd.randint(1, 3)):
            k = rnd.random()
            if k < 0.5:
                st.append(["foreach", ["l"], "i", body()])
            elif k < 0.6:
                st.append(["unique", [["list", ["l"]]]] if rnd.random() < 0.5 else ["unique", [a, b, F("m", 0) if randsz else F("l", 0)]])
            elif k < 0.75:
                st.append(E([rnd.choice(ops_c), rnd.choice([SL, SM]), rnd.choice([lit(rnd.randint(0, 600)), w, a])]))
            elif k < 0.85:
                st.append(E([rnd.choice(ops_c), rnd.choice([a, b]), rnd.choice([SM, F("m", 1) if randsz else F("l", rnd.randint(0, nl - 1)), ["size", ["l"]]])]))
            else:
                st.append(["if", [[["<", nn, lit(2)], [E([rnd.choice(ops_c), a, F("m", 0)])]]], [E(["<", F("m", 1) if randsz else F("l", 0), b])]])
        ops = [["set", ["top", "n"], rnd.choice([0, 1, 2, 3, 200])], ["randomize", ["top"]], ["set", ["top", "n"], rnd.choice([0, 1, 5])], ["randomize", ["top"]]]
        if rnd.random() < 0.5:
            ops += [["list_append", ["top", "l"], rnd.randint(0, 255)], ["randomize", ["top"]]]
        ops.append(["randomize_with", ["top"], [E([rnd.choice(ops_c), a, rnd.choice([lit(100), SM, F("m", 0) if randsz else F("l", 0)])])]])
        out.append({"tag": "random_struct" + ("_randsz" if randsz else ""), "desc": "seeded random structured program #%d" % i, "prog": one_class(fields, st), "world": [["top", "obj", "Top"]], "ops": ops})
    return out


# ------------------------------------------------------------------------------------------ C02 families
def constfold_programs(tier, rnd):
    """if-conditions over non-random fields only: folded before solving with Python integer semantics
    (ArrayConstraintBuilder.visit_constraint_if_else / XExprEvaluator); must agree with the fixed-width meaning"""
    out = []
    a, b = F("a"), F("b")
    n1, n2, n3, s1 = F("n1"), F("n2"), F("n3"), F("s1")
    fields = [fld("a", ("u", 8)), fld("b", ("u", 8)), fld("n1", ("u", 8), False), fld("n2", ("u", 8), False),
              fld("n3", ("u", 8), False), fld("s1", ("s", 8), False)]
    conds = [
        ["==", n1, lit(3)], ["<", n1, n2], ["==", ["+", n1, n2], n3], ["==", ["-", n1, n2], n3], ["<", ["-", n1, n2], n3],
        ["==", ["&", n1, n2], n3], ["==", ["|", n1, n2], n3], ["==", ["^", n1, n2], n3], ["==", ["*", n1, n2], n3],
        ["==", ["<<", n1, ["ulit", 1, 2]], n3], ["==", [">>", n1, ["ulit", 1, 2]], n3], ["<", s1, lit(0)], [">", n1, s1],
        ["not", ["==", n1, lit(3)]], ["&", ["==", n1, lit(3)], ["<", n2, n3]], ["|", ["==", n1, lit(3)], ["<", n2, n3]],
        ["in", n1, [["rng", lit(2), lit(5)], lit(9)]], ["notin", n1, [lit(3)]], ["==", ["ps", n1, 3, 0], ["ulit", 3, 4]],
        ["==", ["bit", n1, 7], ["ulit", 1, 1]], ["==", ["%", n1, n2], n3], ["==", ["/", n1, n2], n3],
        [">=", n1, n2], ["<=", n1, n2], [">", n1, n2], ["!=", n1, n2], [">=", n1, lit(3)], ["<=", n1, lit(200)], ["!=", n1, lit(255)],
        ["<=", s1, lit(-1)], [">=", s1, lit(-128)],
    ]
    vals = [
        {"n1": 3, "n2": 3, "n3": 3, "s1": -1}, {"n1": 200, "n2": 200, "n3": 0, "s1": -128},
        {"n1": 3, "n2": 9, "n3": 12, "s1": -1}, {"n1": 200, "n2": 100, "n3": 44, "s1": -128}, {"n1": 3, "n2": 7, "n3": 252, "s1": 5},
        {"n1": 0x83, "n2": 0x0f, "n3": 3, "s1": 127}, {"n1": 6, "n2": 3, "n3": 2, "s1": -3}, {"n1": 128, "n2": 1, "n3": 0, "s1": 0},
        {"n1": 255, "n2": 2, "n3": 254, "s1": -2},
    ]
    t = types_of(fields)

    def cclass(c):
        txt = str(c)
        if "'not'" in txt or "'notin'" in txt:
            return "not"
        if "'ps'" in txt or "'bit'" in txt:
            return "select"
        if any(("'%s'" % o) in txt for o in ("+", "-", "*", "<<", ">>", "/", "%", "^")) or (c[0] == "==" and c[1][0] in ("&", "|")):
            return "arith"
        if "'s1'" in txt:
            return "mixed_sign_cmp"
        return "simple"
    for c in conds:
        if not in_F(c, t):
            continue
        if c[0] == "==" and c[1][0] in ("/", "%"):
            vs = [v for v in vals if v["n2"] != 0]
        else:
            vs = vals
        out.append(spec_single("constfold", "if %s (non-random condition)" % (c,), fields,
                               [["if", [[c, [E(["==", a, lit(1)])]]], [E(["==", a, lit(2)])]], E(["<", b, lit(10)])], vs))
        out.append(spec_single("constfold", "if/elif %s" % (c,), fields,
                               [["if", [[["==", b, lit(77)], [E(["==", a, lit(0)])]], [c, [E(["==", a, lit(1)])]]], [E(["==", a, lit(2)])]]], vs))
        out.append(spec_single("constfold", "implies %s" % (c,), fields, [["implies", c, [E(["==", a, lit(1)])]], E(["!=", a, lit(1)])], vs))
        # inside a foreach the folded branch replaces the if/else in the expanded copy
        lfields = fields + [["l", "list", ["u", 8], 3, True, False]]
        out.append(spec_single("constfold_foreach", "foreach: if %s" % (c,), lfields,
                               [["foreach", ["l"], "i", [["if", [[c, [E(["==", ["it", "i"], lit(1)])]]], [E(["==", ["it", "i"], lit(2)])]]]]], vs))
        out.append(spec_single("constfold_foreach", "foreach: if idx / elif %s" % (c,), lfields,
                               [["foreach", ["l"], "i", [["if", [[["==", ["idx", "i"], ["ulit", 0, 32]], [E(["==", ["it", "i"], lit(7)])]],
                                                               [c, [E(["==", ["it", "i"], lit(1)])]]], [E(["==", ["it", "i"], lit(2)])]]]]], vs))
        for sp in out[-5:]:
            sp["cond_class"] = cclass(c)
    lfields = fields + [["l", "list", ["u", 8], 4, True, False]]
    I = ["idx", "i"]
    for ic in ([">=", I, lit(2)], ["<=", I, lit(1)], [">", I, lit(0)], ["<", I, lit(3)], ["==", I, lit(2)], ["!=", I, lit(0)],
               ["<", ["+", I, lit(1)], ["size", ["l"]]], [">=", I, ["ulit", 1, 32]], ["<", I, n1], [">=", I, n1], ["==", ["&", I, lit(1)], lit(1)]):
        if not in_F(ic, dict(t)):
            continue
        sp = spec_single("constfold_foreach", "foreach: if %s (index condition)" % (ic,), lfields,
                         [["foreach", ["l"], "i", [["if", [[ic, [E(["==", ["it", "i"], lit(1)])]]], [E(["==", ["it", "i"], lit(2)])]]]]],
                         [{"n1": 0}, {"n1": 2}, {"n1": 3}])
        sp["cond_class"] = "index"
        out.append(sp)
        sp = spec_single("constfold_foreach", "foreach: neighbour under %s" % (ic,), lfields,
                         [["foreach", ["l"], "i", [["if", [[ic, [E([">", ["it", "i"], lit(100)])]], [[">", I, lit(0)], [E(["<", ["it", "i"], F("l", ["idx", "i", -1])])]]], None]]]],
                         [{"n1": 1}])
        sp["cond_class"] = "index"
        out.append(sp)
    return out


def unsat_programs(tier, rnd):
    out = []
    a, b, c = F("a"), F("b"), F("c")
    f3 = [fld("a", ("u", 8)), fld("b", ("u", 8)), fld("c", ("s", 8))]
    progs = [
        [E(["<", a, lit(3)]), E([">", a, lit(5)])],
        [E(["<", a, b]), E(["<", b, a])],
        [E(["==", ["+", a, lit(1)], lit(0)]), E(["<", a, lit(255)])],
        [E(["==", ["+", a, ["ulit", 1, 8]], ["ulit", 0, 8]])],                # satisfiable: wraps at 8 bits (a == 255)
        [E([">", c, lit(127)])], [E(["<", c, lit(-128)])], [E(["==", c, lit(-128)])], [E(["==", a, lit(256)])], [E(["==", a, lit(-1)])],
        [E(["in", a, [["rng", lit(9), lit(2)]]])],                             # empty range
        [E(["notin", a, [["rng", lit(0), lit(255)]]])],
        [E(["notin", a, [["rng", lit(0), lit(254)]]])],                        # exactly one solution
        [["if", [[["<", a, lit(128)], [E([">", a, lit(200)])]]], [E(["<", a, lit(100)])]]],
        [["implies", ["!=", a, lit(7)], [E(["==", b, lit(1)]), E(["==", b, lit(2)])]]],      # only a == 7
        [["implies", [">=", a, lit(0)], [E(["==", b, lit(1)]), E(["==", b, lit(2)])]]],      # unsat
        [E(["&", ["not", ["==", a, lit(1)]], ["==", b, lit(2)]])],
        [E(["|", ["notin", a, [lit(1), lit(2)]], ["notin", b, [lit(3)]]])],
        [E(["&", ["notin", a, [["rng", lit(1), lit(255)]]], ["in", b, [lit(4)]]])],
    ]
    progs += [
        [E(["in", c, [["rng", lit(200), lit(210)]]]), E([">=", c, lit(-128)])],           # in-range outside the type, then a lower bound
        [E(["in", c, [["rng", lit(200), lit(210)]]]), E(["<=", c, lit(127)])],
        [E(["in", a, [["rng", lit(300), lit(310)]]]), E([">", a, lit(0)])],
        [E(["in", a, [["rng", lit(3), lit(5)]]]), E([">", a, lit(7)])],
        [E(["in", a, [["rng", lit(3), lit(5)]]]), E(["<", a, lit(2)])],
        [E(["in", a, [lit(3), lit(9)]]), E(["in", a, [lit(4), lit(10)]])],
        [E(["in", a, [lit(3), lit(9)]]), E(["in", a, [lit(9), lit(10)]]), E([">=", a, b])],
        [E(["<", a, lit(0)])], [E([">", a, lit(255)])], [E(["<", a, b]), E(["==", b, lit(0)])],
        [E([">", a, b]), E(["==", b, lit(255)])], [E([">", a, b]), E([">", b, c]), E(["==", c, lit(127)]), E(["<", a, lit(129)])],
    ]
    # a field whose inferred domain is emptied (in-list outside the type / contradictory lists) related to another
    # variable by every comparison shape: the bound propagators read the other side's (empty) domain
    empt = [[E(["in", a, [lit(300), lit(400)]])], [E(["in", c, [["rng", lit(200), lit(210)]]])], [E(["in", a, [lit(3), lit(9)]]), E(["in", a, [lit(4), lit(10)]])]]
    for em in empt:
        v = em[0][1][1]
        for op in ("<", "<=", ">", ">="):
            for l, r in ((v, b), (b, v), (v, v), (["+", v, lit(1)], b), (b, ["-", v, lit(1)])):
                st = em + [E([op, l, r])]
                if _stmts_in_F(st, f3):
                    progs.append(st)
    for st in progs:
        out.append(spec_single("satedge", "%s" % (st,), f3, st, calls=("randomize", "vsc_randomize", "randomize_with")))
    for n in (3, 4, 5):
        fs = [fld(x, ("u", 2)) for x in "abcde"[:n]]
        out.append(spec_single("satedge", "unique over %d two-bit fields" % n, fs, [["unique", [F(x[0]) for x in fs]]]))
    # two rand sets, the second one unsatisfiable
    out.append(spec_single("satedge", "second rand set unsat", f3, [E(["<", a, lit(5)]), E([">", b, lit(3)]), E(["<", b, lit(3)])]))
    out.append(spec_single("satedge", "non-random only constraint false", [fld("a", ("u", 8)), fld("n", ("u", 8), False)],
                           [E(["<", a, lit(5)]), E(["==", F("n"), lit(1)])], [{"n": 0}, {"n": 1}]))
    return out


def sum_edge_programs(tier, rnd):
    """satisfiability decided by the width of list.sum / product"""
    out = []
    for n in (2, 3, 5, 6):
        for ety, lo, tw in ((("u", 8), 200, 8), (("u", 4), 12, 4), (("s", 8), 100, 8), (("u", 8), 250, 9)):
            lf = [["l", "list", list(ety), n, True, False], fld("t", ("u" if ety[0] == "u" else "s", tw))]
            st = [["foreach", ["l"], "i", [E([">=", ["it", "i"], lit(lo)])]], E(["==", ["sum", ["l"]], F("t")])]
            out.append({"tag": "sum_edge", "desc": "%d x %s%d elements >= %d, sum == t(%d bit)" % (n, ety[0], ety[1], lo, tw),
                        "prog": one_class(lf, st), "world": [["top", "obj", "Top"]], "ops": [["randomize", ["top"]], ["randomize", ["top"]]]})
            st2 = [["foreach", ["l"], "i", [E([">=", ["it", "i"], lit(lo)])]], E(["<", ["sum", ["l"]], F("t")])]
            out.append({"tag": "sum_edge", "desc": "%d x %s%d elements >= %d, sum < t(%d bit)" % (n, ety[0], ety[1], lo, tw),
                        "prog": one_class(lf, st2), "world": [["top", "obj", "Top"]], "ops": [["randomize", ["top"]]]})
    # one list's sum / product used in several statements of different widths, and inside a foreach body
    lf = [["l", "list", ["u", 8], 3, True, False], ["m", "list", ["u", 8], 2, True, False], fld("a", ("u", 8)), fld("w", ("u", 16)), fld("q", ("u", 4))]
    SM, SL = ["sum", ["m"]], ["sum", ["l"]]
    for st in ([E(["==", SM, lit(40)]), E([">", F("a"), SM])], [E([">", F("a"), SM]), E(["==", SM, lit(40)])], [E(["==", F("w"), SM]), E(["<", F("a"), SM]), E(["<", F("q"), SM])],
               [E(["==", SM, lit(40)]), ["foreach", ["l"], "i", [E([">", ["it", "i"], SM])]]],
               [E(["<", SL, lit(90)]), ["foreach", ["l"], "i", [E(["<=", ["*", ["it", "i"], lit(2)], SL])]], E([">", F("w"), SL])],
               [E(["<", ["product", ["m"]], lit(50)]), E([">", F("w"), ["product", ["m"]]]), ["foreach", ["l"], "i", [E(["<", ["it", "i"], ["product", ["m"]]])]]]):
        out.append({"tag": "sum_edge", "desc": "reduction reused %s" % (st,), "prog": one_class(lf, st), "world": [["top", "obj", "Top"]],
                    "ops": [["randomize", ["top"]], ["randomize", ["top"]], ["randomize_with", ["top"], [E(["<", F("a"), ["sum", ["l"]]])]]]})
    # a failing call, then the list shrinks, then a call that must succeed again
    lf = [["l", "list", ["u", 8], 6, True, False]]
    st = [["foreach", ["l"], "i", [E(["<", ["it", "i"], lit(4)]), ["if", [[[">", ["idx", "i"], lit(0)], [E([">", ["it", "i"], F("l", ["idx", "i", -1])])]]], None]]]]
    out.append({"tag": "fail_history", "desc": "strictly increasing list < 4: fails at 6 elements, succeeds after shrinking to 3", "prog": one_class(lf, st),
                "world": [["top", "obj", "Top"]], "ops": [["randomize", ["top"]], ["list_assign", ["top", "l"], [0, 0, 0]], ["randomize", ["top"]],
                                                          ["list_append", ["top", "l"], 0], ["randomize", ["top"]], ["list_append", ["top", "l"], 0], ["randomize", ["top"]],
                                                          ["list_assign", ["top", "l"], [9, 9]], ["randomize", ["top"]]]})
    return out


def c02_programs(tier, sd):
    rnd = random.Random(sd)
    base = atomic_programs(tier, rnd) + statement_programs(tier, rnd)
    if tier == "quick":
        base = [s for i, s in enumerate(base) if s["tag"] != "atomic" or i % 3 == 0]
    extra = [p for p in c03_programs(tier, sd) if p["tag"] == "history_fail"][::(1 if tier == "thorough" else 4)] + \
        [p for p in c06_programs(tier, sd) if p["tag"] == "inline_fail"] + \
        [p for p in c16_programs(tier, sd) if p["tag"] in ("fault_unsat_debug", "fault_unsat")]
    # unsatisfiable only while a block is on: toggles on one instance, instances constructed while the block is off elsewhere
    a_, b_ = F("a"), F("b")
    Un = {"name": "Un", "fields": [fld("a", ("u", 8)), fld("b", ("u", 8))], "blocks": [["lo", "c", [E(["<", a_, lit(10)])]], ["hi", "c", [E(["==", a_, lit(100)])]], ["bb", "c", [E([">", b_, a_])]]]}
    extra.append({"tag": "unsat_cmode", "desc": "contradicting blocks, one switched off on one instance, later instances", "prog": {"enums": {}, "classes": [Un]},
                  "world": [["o1", "obj", "Un"]],
                  "ops": [["randomize", ["o1"]], ["cmode", ["o1"], "hi", False], ["randomize", ["o1"]], ["new", ["o2", "obj", "Un"]], ["randomize", ["o2"]], ["randomize", ["o1"]],
                          ["cmode", ["o2"], "lo", False], ["randomize", ["o2"]], ["new", ["o3", "obj", "Un"]], ["randomize", ["o3"]], ["cmode", ["o1"], "hi", True], ["randomize", ["o1"]],
                          ["new", ["o4", "obj", "Un"]], ["randomize_with", ["o4"], [E(["<", b_, lit(200)])]], ["randomize", ["o2"]]]})
    # rand sets merged through a constant list subscript, with further statements on the scalar afterwards
    lf = [fld("a", ("u", 8)), fld("b", ("u", 8)), ["l", "list", ["u", 8], 2, True, False], fld("n", ("u", 8), False)]
    L0 = F("l", 0)
    for st in ([E([">", a_, lit(3)]), E(["<", L0, lit(9)]), E(["==", a_, L0]), E(["<", a_, F("n")])],
               [E([">", a_, lit(3)]), E(["<", L0, lit(9)]), E(["==", L0, a_]), E(["<", a_, F("n")])],
               [E(["<", b_, lit(5)]), E([">", F("l", 1), lit(250)]), E([">", b_, F("l", 1)])],
               [E(["<", b_, lit(5)]), E([">", F("l", 1), lit(250)]), E(["<", F("l", 1), b_]), E(["!=", b_, lit(0)])],
               [E(["==", a_, lit(7)]), E(["==", L0, lit(8)]), E(["<=", ["+", a_, lit(0)], L0]), E(["!=", a_, F("n")])]):
        extra.append(spec_single("satedge", "merge through a list subscript %s" % (st,), lf, st, [{"n": v} for v in (0, 4, 5, 7, 200)], calls=("randomize", "randomize_with")))
    sr = subscript_rand_programs()
    extra += sr if tier == "thorough" else sr[1::3]
    extra += wide_literal_programs(tier) + empty_membership_programs()
    return constfold_programs(tier, rnd) + unsat_programs(tier, rnd) + sum_edge_programs(tier, rnd) + extra + base + structure_programs(tier, rnd) + rangelist_history_programs(tier, rnd) + \
        random_programs(random.Random(sd + 1), 12000 if tier == "thorough" else 150)


# ------------------------------------------------------------------------------------------ C03 histories
def c03_programs(tier, sd):
    rnd = random.Random(sd)
    out = []
    a, b, c, d = F("a"), F("b"), F("c"), F("d")
    sub = {"name": "Sub", "fields": [fld("x", ("u", 8)), fld("y", ("u", 8), False), fld("z", ("s", 8))],
           "blocks": [["sb0", "c", [E(["<", F("x"), F("y")]), E(["!=", F("z"), lit(0)])]]]}
    for sub_rand in (True, False):
        top = {"name": "Top", "fields": [fld("a", ("u", 8)), fld("b", ("s", 8)), fld("c", ("u", 8), False), fld("d", ("u", 4)),
                                         fld("e", ("s", 4), False), fld("w", ("u", 16)),
                                         fld("e2", ("u", 4), False), fld("e3", ("u", 4), False), ["rl2", "rl", [lit(3), ["rng", lit(8), lit(12)]]],
                                         ["s", "obj", "Sub", sub_rand], ["rl", "rl", [["rng", lit(-5), lit(5)], lit(100)]],
                                         ["m", "list", ["u", 8], 2, False, False], ["l", "list", ["u", 8], 2, True, False]],
               "blocks": [["cb0", "c", [E(["<", a, c]), E(["in_rl", b, ["rl"]]), E(["!=", d, ["ps", F("s", "x"), 3, 0]]),
                                        E([">=", F("w"), F("e")]), E(["!=", F("w"), b])]],
                          ["cb3", "c", [E(["notin_rl", d, ["rl2"]]), ["unique", [d, F("e2"), F("e3")]]]],
                          ["cb1", "c", [["if", [[[">", c, lit(100)], [E(["in_list", a, ["m"]])]]], [E([">", F("s", "z"), ["-", b, lit(3)]])]]]],
                          ["cb2", "c", [["foreach", ["l"], "i", [["if", [[[">", c, lit(100)], [E(["<", ["it", "i"], lit(10)])]]],
                                                                  [E([">", ["it", "i"], lit(200)])]]]]]]]}
        pr = {"enums": {}, "classes": [sub, top]}
        init = [["set", ["top", "c"], 50], ["set", ["top", "s", "y"], 200], ["set", ["top", "m", 0], 7], ["set", ["top", "m", 1], 120],
                ["set", ["top", "e"], -3], ["set", ["top", "e2"], 1], ["set", ["top", "e3"], 2]]
        edits = [
            ["set", ["top", "c"], 200], ["set", ["top", "c"], 1], ["set", ["top", "c"], 0], ["set", ["top", "a"], 33], ["set", ["top", "b"], -4],
            ["rand_mode", ["top", "a"], False], ["rand_mode", ["top", "a"], True], ["rand_mode", ["top", "b"], False], ["rand_mode", ["top", "d"], False],
            ["rand_mode", ["top", "s", "x"], False], ["rand_mode", ["top", "s", "x"], True], ["set", ["top", "s", "x"], 3], ["set", ["top", "s", "y"], 4],
            ["set", ["top", "s", "y"], 0],
            ["rl_append", ["top", "rl"], ["rng", lit(-128), lit(-120)]], ["rl_append", ["top", "rl"], lit(7)],
            ["seq", [["rl_clear", ["top", "rl"]], ["rl_append", ["top", "rl"], ["rng", lit(3), lit(9)]]]],
            ["seq", [["rl_clear", ["top", "rl"]], ["rl_extend", ["top", "rl"], [lit(-1), ["rng", lit(120), lit(127)]]]]],
            ["seq", [["rl_clear", ["top", "rl"]], ["rl_append", ["top", "rl"], ["rng", lit(200), lit(210)]]]],      # outside b's type: unsatisfiable
            ["set", ["top", "m", 0], 150], ["list_append", ["top", "m"], 199], ["list_clear", ["top", "m"]], ["list_assign", ["top", "m"], [10, 20, 30]],
            ["cmode", ["top"], "cb1", False], ["cmode", ["top"], "cb1", True],
            ["set", ["top", "e"], -8], ["set", ["top", "e"], 7], ["set", ["top", "e"], -1], ["set", ["top", "b"], -100],
            ["set", ["top", "w"], 65000], ["rand_mode", ["top", "w"], False],
            ["rl_append", ["top", "rl2"], lit(5)], ["rl_append", ["top", "rl2"], ["rng", lit(0), lit(2)]],
            ["seq", [["rl_clear", ["top", "rl2"]], ["rl_append", ["top", "rl2"], ["rng", lit(0), lit(13)]]]],
            ["seq", [["rl_clear", ["top", "rl2"]], ["rl_extend", ["top", "rl2"], [lit(15), ["rng", lit(4), lit(6)]]]]],
            ["set", ["top", "e2"], 2], ["set", ["top", "e3"], 1], ["seq", [["set", ["top", "e2"], 9], ["set", ["top", "e3"], 9]]], ["set", ["top", "e2"], 14],
            ["seq", [["rand_mode", ["top", "d"], False], ["set", ["top", "d"], 1]]],
        ]
        calls = [["randomize", ["top"]], ["randomize_with", ["top"], [E([">", a, lit(2)])]], ["vsc_randomize", [["top"]]],
                 ["vsc_randomize", [["top", "a"], ["top", "d"]]], ["vsc_randomize", [["top", "c"]]], ["vsc_randomize", [["top", "s"]]],
                 ["vsc_randomize_with", [["top", "a"], ["top", "b"]], [E(["<", F("top", "a"), F("top", "c")]), E([">", F("top", "b"), F("top", "s", "z")])]],
                 ["randomize_with", ["top"], [E(["==", a, lit(1)]), E(["==", a, lit(2)])]],          # unsatisfiable call
                 ["randomize_with", ["top"], [E(["==", F("s", "y"), lit(0)]), E([">=", b, lit(-128)])]]]
        nh = 60 if tier == "quick" else 5000
        # systematic: every single edit followed by every call kind
        def flat(e):
            return list(e[1]) if e[0] == "seq" else [e]
        for e in edits:
            for cl in calls[:4] + calls[7:8]:
                out.append({"tag": "history", "desc": "sub_rand=%s edit %s then %s" % (sub_rand, e, cl[0:2]), "prog": pr,
                            "world": [["top", "obj", "Top"]], "ops": init + [["randomize", ["top"]]] + flat(e) + [cl, ["randomize", ["top"]]]})
        # a failing call in the middle: fail, edit, call again (stale per-call rewrites must not survive the failure)
        unsat = calls[7]
        for e in edits:
            out.append({"tag": "history_fail", "desc": "sub_rand=%s fail, edit %s, randomize" % (sub_rand, e), "prog": pr,
                        "world": [["top", "obj", "Top"]], "ops": init + [["randomize", ["top"]], unsat] + flat(e) + [["randomize", ["top"]], unsat, ["vsc_randomize", [["top"]]]]})
        # seeded longer interleavings
        for i in range(nh):
            ops = list(init)
            for step in range(rnd.randint(2, 4 if tier == "quick" else 6)):
                for _ in range(rnd.randint(0, 3)):
                    ops.extend(flat(rnd.choice(edits)))
                ops.append(rnd.choice(calls))
            out.append({"tag": "history_seeded", "desc": "sub_rand=%s seeded history #%d" % (sub_rand, i), "prog": pr,
                        "world": [["top", "obj", "Top"]], "ops": ops})
    # free-standing fields
    pr = {"enums": {}, "classes": []}
    world = [["f0", "u", 8, True], ["f1", "s", 8, False], ["f2", "u", 4, True]]
    for cl in ([["vsc_randomize", [["f0"]]], ["vsc_randomize", [["f0"], ["f1"]]], ["vsc_randomize_with", [["f0"], ["f2"]], [E(["<", F("f0"), F("f1")]), E(["==", F("f2"), lit(3)])]],
                ["vsc_randomize_with", [["f1"]], [E(["<", F("f1"), F("f0")])]]]):
        out.append({"tag": "standalone", "desc": "standalone fields %s" % (cl,), "prog": pr, "world": world,
                    "ops": [["set", ["f0"], 9], ["set", ["f1"], -7], ["set", ["f2"], 2], cl, ["set", ["f1"], 100], cl]})
    # a random-size list inside a non-random sub-object is a constant of the call: content and length stay
    SubL = {"name": "SubL", "fields": [["l", "list", ["u", 8], 0, True, True], fld("x", ("u", 8))], "blocks": [["sl", "c", [E(["<=", ["size", ["l"]], lit(4)])]]]}
    for srand in (False, True):
        TopL = {"name": "TopL", "fields": [["s", "obj", "SubL", srand], ["r", "obj", "SubL", True], fld("a", ("u", 8))],
                "blocks": [["tl", "c", [E(["<", F("a"), lit(100)])]]]}
        out.append({"tag": "randsz_in_subobject", "desc": "random-size list inside a %s sub-object" % ("random" if srand else "non-random"),
                    "prog": {"enums": {}, "classes": [SubL, TopL]}, "world": [["top", "obj", "TopL"]],
                    "ops": [["list_append", ["top", "s", "l"], 5], ["list_append", ["top", "s", "l"], 6], ["set", ["top", "s", "x"], 9], ["randomize", ["top"]], ["randomize", ["top"]],
                            ["randomize_with", ["top"], [E([">", F("a"), lit(3)])]], ["vsc_randomize", [["top", "r"]]], ["list_append", ["top", "s", "l"], 7], ["randomize", ["top"]],
                            ["vsc_randomize", [["top", "s"]]], ["randomize", ["top"]]]})
    # free-standing lists as the root of a call: a fixed-size list keeps its length, elements of a list declared non-random are
    # random only when ... they are not: below the root the declaration decides
    for lrand in (True, False):
        world = [["lst", "list", ["u", 8], 4, lrand, False], ["x", "u", 8, True]]
        for cl in ([["vsc_randomize", [["lst"]]], ["vsc_randomize", [["lst"], ["x"]]],
                    ["vsc_randomize_with", [["lst"], ["x"]], [E(["==", F("x"), ["size", ["lst"]]]), E(["<", F("lst", 0), F("lst", 1)])]],
                    ["vsc_randomize_with", [["x"]], [E([">", F("x"), F("lst", 2)])]]]):
            out.append({"tag": "standalone_list", "desc": "free-standing list (rand=%s) %s" % (lrand, cl), "prog": pr, "world": world,
                        "ops": [["set", ["lst", 0], 3], ["set", ["lst", 1], 9], ["set", ["lst", 2], 200], ["set", ["lst", 3], 7], cl, cl, ["set", ["lst", 2], 100], cl]})
    return out


# ------------------------------------------------------------------------------------------ C05 soft constraints
def c05_programs(tier, sd):
    rnd = random.Random(sd)
    out = []
    a, b, c, n = F("a"), F("b"), F("c"), F("n")
    S = lambda e: ["soft", e]
    fields = [fld("a", ("u", 4)), fld("b", ("u", 4)), fld("c", ("s", 4)), fld("n", ("u", 4), False)]
    bodies = [
        [S(["==", a, lit(1)]), S(["==", a, lit(2)])],
        [S(["==", a, lit(1)]), S(["==", a, lit(2)]), S(["==", a, lit(3)])],
        [S(["<", a, lit(5)]), S([">", a, lit(10)]), S(["==", a, lit(3)])],
        [S(["<=", a, b]), S(["<=", b, c]), S(["<", c, a]), E([">=", c, lit(0)])],                      # conflict only in threes
        [E(["!=", a, lit(7)]), S(["==", a, b]), S(["==", b, lit(7)])],
        [E(["<", a, lit(4)]), S([">", a, lit(8)])],                                                     # soft against hard
        [E(["<", a, lit(4)]), S([">", a, lit(8)]), S(["==", b, lit(2)]), S(["==", a, lit(3)])],
        [S(["==", a, lit(1)]), ["if", [[["<", b, lit(8)], [S(["==", a, lit(2)])]]], [S(["==", a, lit(3)])]]],
        [["if", [[["==", n, lit(1)], [S(["==", a, lit(2)]), E([">", b, lit(3)])]]], [S(["==", a, lit(3)])]], S(["<", a, lit(3)])],
        [["implies", [">", b, lit(5)], [S(["==", a, lit(9)])]], S(["==", a, lit(4)]), S(["==", b, lit(6)])],
        [["if", [[["<", b, lit(8)], [["implies", [">", c, lit(0)], [S(["==", a, lit(2)])]]]]], None], S(["==", a, lit(5)]), S(["==", c, lit(1)])],
        [S(["in", a, [["rng", lit(2), lit(6)]]]), S(["in", a, [["rng", lit(5), lit(9)]]]), S(["!=", a, lit(5)]), S(["!=", a, lit(6)])],
        [S(["==", ["+", a, b], ["ulit", 9, 4]]), S(["==", a, lit(15)]), S(["==", b, lit(15)])],
        [E(["<", a, b]), S(["==", b, lit(0)])],
        [S(["==", a, lit(1)]), S(["==", b, lit(2)]), S(["==", c, lit(-3)])],                            # no conflict: all honoured
        [["if", [[["==", n, lit(1)], [S(["==", a, lit(2)])]], [["==", n, lit(2)], [S(["==", a, lit(3)])]]], [S(["==", a, lit(4)])]], S(["==", a, lit(5)])],
        # else-if chains over random conditions (conditions over non-random fields are resolved before the rand sets are formed)
        [["if", [[["<", b, lit(4)], [S(["==", a, lit(2)])]], [["<", b, lit(8)], [S(["==", a, lit(3)])]], [["<", b, lit(12)], [S(["==", a, lit(6)])]]], [S(["==", a, lit(4)])]], S(["==", a, lit(5)])],
        [S(["==", a, lit(7)]), ["if", [[["<", b, lit(10)], [S(["==", a, lit(1)])]], [["<", b, lit(20)], [E(["!=", a, lit(3)]), S(["==", a, lit(3)])]]], None]],
        [["if", [[["<", c, lit(0)], [S(["==", a, lit(2)])]], [["<", b, lit(8)], [["if", [[[">", c, lit(3)], [S(["==", a, lit(9)])]]], [S(["==", a, lit(8)])]]]]], [S(["==", a, lit(4)])]], S(["==", b, lit(3)])],
        # hard statement followed by a soft one inside guarded bodies (and the other way round)
        [["if", [[["<", b, lit(8)], [E([">", b, lit(3)]), S(["==", a, lit(2)])]]], [E(["<", b, lit(12)]), S(["==", a, lit(3)])]], S(["==", a, lit(1)])],
        [["implies", [">", c, lit(0)], [E(["!=", a, lit(0)]), S(["==", a, lit(4)]), E(["!=", b, lit(1)])]], S(["==", a, lit(0)])],
        [["if", [[["==", n, lit(1)], [E(["<", a, lit(9)])]], [["<", b, lit(5)], [E([">", a, lit(1)]), S(["==", a, b])]]], [S(["==", a, lit(7)]), E(["!=", b, lit(7)])]]],
        [["if", [[["<", b, lit(8)], [["if", [[[">", c, lit(0)], [E(["!=", a, lit(3)]), S(["==", a, lit(2)])]]], [S(["==", a, lit(6)])]]]]], [S(["==", a, lit(5)])]], S(["==", a, lit(3)])],
    ]
    inlines = [[], [S(["==", a, lit(6)])], [S(["==", a, lit(1)]), E(["!=", b, lit(0)])], [S(["==", b, lit(9)]), S(["==", a, b])]]
    for bi, body in enumerate(bodies):
        for il in inlines:
            if tier == "quick" and il and bi % 2 == 1 and len(il) > 1:
                continue
            pr = one_class(fields, body)
            ops = []
            for nv in (0, 1, 2):
                ops.append(["set", ["top", "n"], nv])
                ops.append(["randomize_with", ["top"], il] if il else ["randomize", ["top"]])
                ops.append(["randomize", ["top"]])
            out.append({"tag": "soft", "desc": "softs %s inline %s" % (body, il), "prog": pr, "world": [["top", "obj", "Top"]],
                        "ops": ops, "soft_order_fixed": True})
    # a failing call first: priorities / per-call soft state of the failed call must not carry over
    unsat_il = [E(["==", b, lit(1)]), E(["==", b, lit(2)])]
    f3 = [fld("a", ("u", 4)), fld("b", ("u", 4)), fld("c", ("u", 4)), fld("n", ("u", 4), False)]
    for body in ([S(["==", a, lit(1)]), S(["==", b, lit(2)]), S(["==", F("c"), lit(3)])], [S(["==", a, lit(1)]), S(["==", a, lit(2)])],
                 [S(["<", a, lit(5)]), S(["==", b, lit(2)]), S([">", F("c"), lit(9)])]):
        for il in ([S(["==", a, lit(9)]), S(["==", b, lit(8)])], [S(["==", b, lit(8)])], [S(["==", F("c"), lit(0)]), S(["==", a, lit(4)])]):
            out.append({"tag": "soft_after_failure", "desc": "failed call, then inline softs %s over class softs %s" % (il, body), "prog": one_class(f3, body),
                        "world": [["top", "obj", "Top"]],
                        "ops": [["randomize", ["top"]], ["randomize_with", ["top"], unsat_il], ["randomize_with", ["top"], il], ["randomize_with", ["top"], il],
                                ["randomize_with", ["top"], unsat_il + il], ["randomize", ["top"]], ["randomize_with", ["top"], il]], "soft_order_fixed": True})
    # softs in a rand set that is merged with another one through a constant subscript of a list
    fl = [fld("a", ("u", 4)), fld("b", ("u", 4)), ["arr", "list", ["u", 4], 3, True, False], fld("n", ("u", 4), False)]
    A1 = F("arr", 1)
    for body in ([S(["==", a, lit(5)]), E([">", A1, lit(2)]), E(["<", a, A1])], [S(["==", a, lit(5)]), E([">", A1, lit(2)]), E([">", A1, a])],
                 [E(["<", F("arr", 0), lit(9)]), S(["==", b, lit(3)]), S(["==", a, lit(5)]), E(["!=", ["+", a, F("arr", 0)], lit(20)]), E(["<", b, F("arr", 2)])],
                 [S(["==", F("arr", 2), lit(7)]), E(["<", a, lit(9)]), E(["<=", a, F("arr", 2)]), S(["==", a, lit(8)])]):
        out.append({"tag": "soft_merge", "desc": "softs across rand sets merged through a list subscript %s" % (body,), "prog": one_class(fl, body),
                    "world": [["top", "obj", "Top"]], "ops": [["randomize", ["top"]], ["randomize_with", ["top"], [S(["==", b, lit(1)])]], ["randomize", ["top"]]],
                    "soft_order_fixed": True})
    # class-level softs of the objects held in a list, against inline softs, over several calls on the same parent
    ItemS = {"name": "ItemS", "fields": [fld("x", ("u", 4)), fld("y", ("u", 4))], "blocks": [["ib", "c", [S(["==", F("x"), lit(2)]), E(["<", F("y"), lit(9)])]]]}
    TopS = {"name": "Top", "fields": [["items", "list", ["obj", "ItemS"], 3, True, False], fld("a", ("u", 4))], "blocks": [["tb", "c", [S(["==", F("a"), lit(1)])]]]}
    for il in ([S(["==", F("items", 0, "x"), lit(7)])], [S(["==", F("items", 2, "x"), lit(5)]), S(["==", F("a"), lit(3)])], []):
        out.append({"tag": "soft_list_elems", "desc": "softs of list-element classes vs inline softs %s, repeated calls" % (il,), "prog": {"enums": {}, "classes": [ItemS, TopS]},
                    "world": [["top", "obj", "Top"]], "soft_order_fixed": True,
                    "ops": [["randomize_with", ["top"], il]] * 4 + [["randomize", ["top"]], ["randomize_with", ["top"], il]]})
    # softs inside a dynamic block that an inline block references as a plain statement
    DS = {"name": "Top", "fields": [fld("a", ("u", 4)), fld("b", ("u", 4))],
          "blocks": [["cb", "c", [E(["<", a, lit(12)])]], ["ds", "dyn", [S(["==", a, lit(5)]), S(["==", b, lit(9)]), E(["!=", b, lit(0)])]]]}
    for il in ([E(["dyn", "ds"])], [E(["dyn", "ds"]), S(["==", a, lit(2)])], [S(["==", b, lit(1)]), E(["dyn", "ds"])]):
        out.append({"tag": "soft_dyn", "desc": "softs of a dynamic block referenced plainly %s" % (il,), "prog": {"enums": {}, "classes": [DS]}, "world": [["top", "obj", "Top"]],
                    "soft_order_fixed": True, "ops": [["randomize_with", ["top"], il], ["randomize", ["top"]], ["randomize_with", ["top"], il]]})
    # softs in several class blocks (order between blocks not fixed by the property): maximality/guards only
    for body1, body2 in ((bodies[0], [S(["==", a, lit(3)]), S(["==", b, lit(1)])]), (bodies[2], bodies[5]), (bodies[7], bodies[1])):
        pr = one_class(fields, body1, extra_blocks=[["cb1", "c", body2]])
        out.append({"tag": "soft_multi_block", "desc": "softs in two blocks %s | %s" % (body1, body2), "prog": pr,
                    "world": [["top", "obj", "Top"]], "ops": [["set", ["top", "n"], 1], ["randomize", ["top"]],
                                                              ["randomize_with", ["top"], [S(["==", a, lit(6)])]], ["randomize", ["top"]]],
                    "soft_order_fixed": False})
    # seeded
    for i in range(40 if tier == "quick" else 6000):
        body = []
        for _ in range(rnd.randint(2, 4)):
            f = rnd.choice([a, b])
            k = rnd.random()
            e = ["==", f, lit(rnd.randint(0, 15))] if k < 0.5 else [rnd.choice(["<", ">", "!="]), f, rnd.choice([lit(rnd.randint(0, 15)), b if f is a else a])]
            st = S(e)
            r = rnd.random()
            if r < 0.25:
                st = ["if", [[[rnd.choice(["<", ">"]), rnd.choice([b, c, n]), lit(rnd.randint(0, 8))], [st]]], [S(["==", a, lit(rnd.randint(0, 15))])] if rnd.random() < 0.5 else None]
            elif r < 0.4:
                st = ["implies", [">", c, lit(rnd.randint(-8, 7))], [st]]
            body.append(st)
        if rnd.random() < 0.6:
            body.insert(rnd.randrange(len(body) + 1), E([rnd.choice(["<", ">", "!="]), a, lit(rnd.randint(0, 15))]))
        pr = one_class(fields, body)
        il = rnd.choice(inlines)
        out.append({"tag": "soft_seeded", "desc": "seeded soft program #%d" % i, "prog": pr, "world": [["top", "obj", "Top"]],
                    "ops": [["set", ["top", "n"], rnd.randint(0, 2)], ["randomize", ["top"]], ["randomize_with", ["top"], il], ["randomize", ["top"]]],
                    "soft_order_fixed": True})
    return out


# ------------------------------------------------------------------------------------------ C06 inline / dynamic
def c06_programs(tier, sd):
    rnd = random.Random(sd)
    out = []
    a, b, c = F("a"), F("b"), F("c")
    D = {"name": "D", "fields": [fld("a", ("u", 8)), fld("b", ("u", 8)), fld("c", ("s", 8)), fld("n", ("u", 8), False)],
         "blocks": [["cb0", "c", [E(["!=", a, b]), E(["<", c, lit(100)])]],
                    ["d0", "dyn", [E(["<", a, lit(4)])]], ["d1", "dyn", [E([">", a, lit(250)])]],
                    ["d2", "dyn", [E(["==", b, ["+", a, F("n")]]), E([">", c, lit(0)])]],
                    ["d3", "dyn", [E(["<", b, lit(50)]), ["soft", ["==", b, lit(7)]], ["if", [[[">", c, lit(0)], [E(["==", a, lit(9)])]]], None]]]]}
    H = {"name": "H", "fields": [["l", "list", ["obj", "D"], 3, True, False], fld("k", ("u", 8))],
         "blocks": [["hb0", "c", [["foreach", ["l"], "i", [E(["!=", ["it", "i", "a"], F("k")])]]]]]}
    pr = {"enums": {}, "classes": [D, H]}
    dyn = lambda n: ["dyn", n]
    inline_sets = [
        [], [E(["==", a, lit(77)])], [E(["<", a, b]), E([">", c, lit(-5)])], [E(dyn("d0"))], [E(dyn("d1"))], [E(dyn("d0")), E(dyn("d2"))],
        [E(["&", dyn("d0"), dyn("d2")])], [E(["|", dyn("d0"), dyn("d1")])], [E(["not", dyn("d0")])], [E(["&", ["not", dyn("d0")], ["not", dyn("d1")]])],
        [E(["|", ["&", dyn("d0"), dyn("d2")], dyn("d1")])], [E(["&", dyn("d0"), ["==", b, lit(200)]])], [E(["|", dyn("d1"), ["<", b, lit(3)]])],
        [E(["&", dyn("d0"), ["not", dyn("d2")]])], [E(dyn("d3"))], [E(["not", dyn("d3")])], [E(["&", dyn("d3"), [">", a, lit(3)]])],
        [["if", [[["<", b, lit(128)], [E(dyn("d0"))]]], [E(dyn("d1"))]]], [["implies", [">", c, lit(10)], [E(dyn("d2"))]]],
        [E(dyn("d0")), E(dyn("d1"))],                       # unsatisfiable
    ]
    # populations: target created first / last / in the middle; other instances hold values falsifying the dynamic blocks
    pops = [(["top"], []), (["top", "o2"], []), (["o2", "top"], []), (["o2", "top", "o3"], []), (["top"], ["o2"]), (["o2", "top"], ["o3"])]
    spoil = lambda nm: [["set", [nm, "a"], 100], ["set", [nm, "b"], 100], ["set", [nm, "c"], -50], ["set", [nm, "n"], 1]]
    for pre, post in pops:
        sets = inline_sets if tier == "thorough" or len(pre) + len(post) <= 2 else inline_sets[::2]
        for il in sets:
            world = [[nm, "obj", "D"] for nm in pre]
            ops = []
            for nm in pre:
                if nm != "top":
                    ops += spoil(nm)
            ops += [["set", ["top", "n"], 1]]
            for nm in post:
                ops += [["new", [nm, "obj", "D"]]] + spoil(nm)
            ops += [["randomize", ["top"]], ["randomize_with", ["top"], il], ["randomize", ["top"]]]
            for nm in pre + post:
                if nm != "top":
                    ops += [["randomize_with", [nm], [E(dyn("d0"))]]]
                    break
            ops += [["randomize_with", ["top"], il], ["vsc_randomize", [["top"]]]]
            out.append({"tag": "dyn", "desc": "instances %s+%s inline %s" % (pre, post, il), "prog": pr, "world": world, "ops": ops})
    # dynamic constraints referenced through list elements
    for il in ([E(["dynp", ["l", 1], "d0"])], [E(["dynp", ["l", 0], "d1"]), E(["dynp", ["l", 2], "d0"])],
               [E(["|", ["dynp", ["l", 1], "d0"], ["dynp", ["l", 1], "d1"]])], [E(["not", ["dynp", ["l", 2], "d0"]])],
               [["foreach", ["l"], "i", [E(["<", ["it", "i", "b"], lit(9)])]], E(["dynp", ["l", 0], "d2"])],
               # ... referenced through the element a foreach index selects, also under a condition on the index / the element
               [["foreach", ["l"], "i", [E(["dynp", ["l", ["idx", "i"]], "d0"])]]],
               [["foreach", ["l"], "i", [["if", [[["==", ["idx", "i"], lit(1)], [E(["dynp", ["l", ["idx", "i"]], "d1"])]]], [E(["dynp", ["l", ["idx", "i"]], "d0"])]]]]],
               [["foreach", ["l"], "i", [E(["|", ["dynp", ["l", ["idx", "i"]], "d0"], ["dynp", ["l", ["idx", "i"]], "d1"]])]]]):
        out.append({"tag": "dyn_list", "desc": "dynamic through list element %s" % (il,), "prog": pr, "world": [["h", "obj", "H"], ["x", "obj", "D"]],
                    "ops": spoil("x") + [["set", ["h", "l", 0, "n"], 2], ["randomize", ["h"]], ["randomize_with", ["h"], il], ["randomize", ["h"]],
                                         ["randomize_with", ["h"], il]]})
    # a failing inline call must leave no per-call rewrite behind (foreach expansion): grow the list, call again
    for fail in ([E(["==", F("k"), lit(1)]), E(["==", F("k"), lit(2)])], [E(["dynp", ["l", 0], "d0"]), E(["dynp", ["l", 0], "d1"])]):
        out.append({"tag": "inline_fail", "desc": "failing randomize_with %s, list grows, call again" % (fail,), "prog": pr,
                    "world": [["h", "obj", "H"]],
                    "ops": [["randomize", ["h"]], ["randomize_with", ["h"], fail], ["list_append", ["h", "l"], 0], ["randomize", ["h"]],
                            ["randomize_with", ["h"], fail], ["list_append", ["h", "l"], 0], ["randomize_with", ["h"], [E(["<", F("k"), lit(9)])]], ["randomize", ["h"]]]})
    # a derived class adds dynamic blocks whose names sort before / between the inherited ones; instances of both classes live
    DD = {"name": "DD", "base": "D", "fields": [fld("e", ("u", 8))],
          "blocks": [["a_first", "dyn", [E([">", b, lit(200)])]], ["d1a", "dyn", [E(["==", F("e"), lit(5)])]], ["zz", "dyn", [E(["<", F("e"), lit(3)])]]]}
    prd = {"enums": {}, "classes": [D, DD]}
    for first in ("base", "der"):
        other = "der" if first == "base" else "base"
        for dn in ("d0", "d1", "d2", "d3"):
            ops = spoil("x") + [["set", ["base", "n"], 1], ["set", ["der", "n"], 2],
                                ["randomize_with", [first], [E(dyn(dn))]], ["randomize_with", [other], [E(dyn(dn))]],
                                ["randomize_with", ["der"], [E(dyn("a_first")), E(dyn(dn))]], ["randomize_with", ["der"], [E(["|", dyn("zz"), dyn("d1a")])]],
                                ["randomize_with", ["base"], [E(["not", dyn(dn)])]], ["randomize_with", ["der"], [E(dyn(dn)), E(dyn("d1a"))]]]
            out.append({"tag": "dyn_inherit", "desc": "derived class with extra dynamic blocks, first reference through %s, block %s" % (first, dn), "prog": prd,
                        "world": [["base", "obj", "D"], ["der", "obj", "DD"], ["x", "obj", "DD"]], "ops": ops})
    # the same dynamic block referenced more than once in one call (nested first, plain later and vice versa)
    for il in ([E(["|", dyn("d0"), dyn("d1")]), E(dyn("d0"))], [E(dyn("d0")), E(["|", dyn("d0"), dyn("d1")])], [["implies", [">", c, lit(10)], [E(dyn("d2"))]], E(dyn("d2"))],
               [E(["|", dyn("d1"), ["<", b, lit(3)]]), E(dyn("d1"))], [E(["not", dyn("d1")]), E(["|", dyn("d1"), dyn("d0")])], [E(dyn("d3")), E(dyn("d3"))],
               [["if", [[["<", b, lit(128)], [E(dyn("d0"))]]], [E(dyn("d1"))]], E(dyn("d0"))]):
        out.append({"tag": "dyn_twice", "desc": "dynamic block referenced twice %s" % (il,), "prog": pr, "world": [["o2", "obj", "D"], ["top", "obj", "D"]],
                    "ops": spoil("o2") + [["set", ["top", "n"], 1], ["randomize_with", ["top"], il], ["randomize", ["top"]], ["randomize_with", ["top"], il]]})
    # user code raising inside a randomize_with body after some statements: nothing of the abandoned body reaches a later call
    for k in (1, 2):
        body = [E(["==", a, lit(5)]), E(["==", b, lit(7)])]
        body.insert(k, ["raise", "inline@%d" % k])
        body.append(["raise", "inline@end"])
        out.append({"tag": "inline_abandoned", "desc": "randomize_with body abandoned by a user exception at %d, then other calls" % k, "prog": pr,
                    "world": [["top", "obj", "D"], ["o2", "obj", "D"]],
                    "ops": [["set", ["top", "n"], 1], ["set", ["o2", "n"], 1], ["randomize_with", ["top"], body], ["randomize_with", ["top"], [E([">", a, lit(9)])]],
                            ["randomize_with", ["top"], body], ["randomize_with", ["o2"], [E(["!=", b, lit(7)])]], ["randomize", ["top"]],
                            ["randomize_with", ["o2"], body[:1] + [["raise", "x"]]], ["vsc_randomize_with", [["top"]], [E(["<", F("top", "a"), lit(3)])]]]})
    # inline-only sequences: leak between calls
    for i in range(30 if tier == "quick" else 4000):
        ops = [["set", ["top", "n"], rnd.randint(0, 3)]]
        for _ in range(rnd.randint(2, 4)):
            r = rnd.random()
            if r < 0.3:
                ops.append(["randomize", ["top"]])
            elif r < 0.9:
                ops.append(["randomize_with", ["top"], rnd.choice(inline_sets)])
            else:
                ops.append(["vsc_randomize_with", [["top"]], [E(["<", F("top", "a"), lit(rnd.randint(1, 255))])]])
        ops.append(["randomize", ["top"]])
        out.append({"tag": "inline_seq", "desc": "seeded inline sequence #%d" % i, "prog": pr, "world": [["o2", "obj", "D"], ["top", "obj", "D"]],
                    "ops": spoil("o2") + ops})
    return out


# ------------------------------------------------------------------------------------------ C07 constraint_mode / hierarchy
def c07_programs(tier, sd):
    rnd = random.Random(sd)
    out = []
    a, b, c = F("a"), F("b"), F("c")
    Base = {"name": "Base", "fields": [fld("a", ("u", 8)), fld("b", ("u", 8)), fld("c", ("s", 8))],
            "blocks": [["ca", "c", [E(["<", a, lit(10)])]], ["cb", "c", [E([">", b, lit(5)]), E(["<", b, lit(200)])]], ["cz", "c", [E(["!=", c, lit(0)])]]]}
    Mid = {"name": "Mid", "base": "Base", "fields": [fld("d", ("u", 8))],
           "blocks": [["ca", "c", [E([">", a, lit(100)])]], ["cd", "c", [E(["==", F("d"), ["+", a, lit(1)]])]]]}
    Leaf = {"name": "Leaf", "base": "Mid", "fields": [],
            "blocks": [["cb", "c", [E(["==", b, lit(3)])]], ["ca", "c", [E(["in", a, [["rng", lit(20), lit(30)]]])]]]}
    Hold = {"name": "Hold", "fields": [["s1", "obj", "Leaf", True], ["s2", "obj", "Leaf", True], ["l", "list", ["obj", "Mid"], 2, True, False], fld("k", ("u", 8))],
            "blocks": [["hk", "c", [E(["<", F("k"), F("s1", "a")])]]]}
    Hold["blocks"].append(["hf", "c", [["foreach", ["l"], "i", [E(["<", ["it", "i", "c"], lit(-5)])]]]])
    pr = {"enums": {}, "classes": [Base, Mid, Leaf, Hold]}
    blocks = {"Base": ["ca", "cb", "cz"], "Mid": ["ca", "cb", "cz", "cd"], "Leaf": ["ca", "cb", "cz", "cd"]}
    # two distinct classes that share their __qualname__ (made by one factory) but not their block sets
    FA = {"name": "FA", "base": "Base", "factory": "lim", "fields": [fld("d", ("u", 8))], "blocks": [["cx", "c", [E(["==", F("d"), lit(1)])]]]}
    FB = {"name": "FB", "base": "Mid", "factory": "lim", "fields": [fld("e", ("u", 8))], "blocks": [["cy", "c", [E(["==", F("e"), lit(2)])]], ["ca", "c", [E(["==", a, lit(200)])]]]}
    prf = {"enums": {}, "classes": [Base, Mid, FA, FB]}
    for first, second in (("FA", "FB"), ("FB", "FA")):
        out.append({"tag": "same_qualname", "desc": "classes sharing a qualname, %s instantiated first" % first, "prog": prf,
                    "world": [["o1", "obj", first], ["top", "obj", second]],
                    "ops": [["randomize", ["top"]], ["randomize", ["o1"]], ["cmode", ["top"], "ca", False], ["randomize", ["top"]], ["randomize", ["o1"]]]})
    # a block with a foreach is switched off, calls happen, the list grows, the block is switched on again
    for calls_off in (1, 2):
        out.append({"tag": "cmode_foreach", "desc": "foreach block off, %d call(s), list grows, on again" % calls_off, "prog": pr,
                    "world": [["h", "obj", "Hold"]],
                    "ops": [["randomize", ["h"]], ["cmode", ["h"], "hf", False]] + [["randomize", ["h"]]] * calls_off +
                           [["list_append", ["h", "l"], 0], ["randomize", ["h"]], ["cmode", ["h"], "hf", True], ["randomize", ["h"]], ["randomize", ["h"]],
                            ["cmode", ["h"], "hf", False], ["list_append", ["h", "l"], 0], ["cmode", ["h"], "hf", True], ["randomize", ["h"]]]})
    # toggles made inside a raw_mode region; integer mode values (0 / 1); several live instances
    for cls in ("Mid", "Leaf"):
        for bn in ("ca", "cb"):
            out.append({"tag": "cmode_raw", "desc": "%s: toggle %s inside raw_mode / with integer values, three instances" % (cls, bn), "prog": pr,
                        "world": [["older", "obj", cls], ["top", "obj", cls], ["newer", "obj", cls]],
                        "ops": [["cmode_raw", ["older"], bn, False], ["randomize", ["older"]], ["randomize", ["top"]], ["randomize", ["newer"]],
                                ["cmode", ["top"], bn, 0], ["randomize", ["top"]], ["randomize", ["newer"]], ["new", ["late", "obj", cls]], ["randomize", ["late"]],
                                ["cmode_raw", ["older"], bn, True], ["cmode", ["top"], bn, 1], ["randomize", ["older"]], ["randomize", ["top"]],
                                ["cmode_raw", ["newer"], bn, 0], ["randomize", ["newer"]], ["randomize", ["late"]], ["randomize", ["top"]]]})
    # a block that carries solve_order directives and bound-forming statements is switched off: neither may stay in force
    Ord = {"name": "Ord", "fields": [fld("a", ("u", 4)), fld("b", ("u", 4)), fld("c", ("u", 4))],
           "blocks": [["rel", "c", [["if", [[["==", a, lit(1)], [E(["==", b, lit(1)])]]], None], E(["!=", F("c"), b])]],
                      ["small", "c", [E(["<", a, lit(4)]), E(["in", b, [["rng", lit(0), lit(5)]]]), ["order", [["a"]], [["b"]]]]],
                      ["ord2", "c", [["order", [["b"]], [["c"]]]]]]}
    pro = {"enums": {}, "classes": [Ord]}
    for mode_off in (False, 0):
        out.append({"tag": "cmode_order", "desc": "block with solve_order and bounds switched off with %r" % (mode_off,), "prog": pro, "world": [["top", "obj", "Ord"], ["o2", "obj", "Ord"]],
                    "ops": [["randomize", ["top"]], ["cmode", ["top"], "small", mode_off], ["randomize", ["top"]], ["randomize", ["top"]], ["randomize", ["o2"]],
                            ["cmode", ["top"], "ord2", mode_off], ["randomize", ["top"]], ["cmode", ["top"], "small", True if mode_off is False else 1], ["randomize", ["top"]],
                            ["cmode", ["o2"], "rel", mode_off], ["randomize", ["o2"]], ["randomize", ["top"]]]})
    # single instances of each class: every single toggle, then toggle sequences
    for cls in ("Base", "Mid", "Leaf"):
        for bn in blocks[cls]:
            out.append({"tag": "cmode", "desc": "%s toggle %s off/on" % (cls, bn), "prog": pr, "world": [["top", "obj", cls]],
                        "ops": [["randomize", ["top"]], ["cmode", ["top"], bn, False], ["randomize", ["top"]], ["randomize", ["top"]],
                                ["randomize_with", ["top"], [E(["<", c, lit(50)])]], ["cmode", ["top"], bn, True], ["randomize", ["top"]], ["vsc_randomize", [["top"]]]]})
    # co-existing instances: toggling one never affects the others (created before and after the toggle)
    for cls in ("Mid", "Leaf"):
        for bn in blocks[cls][:2] + blocks[cls][3:]:
            out.append({"tag": "cmode_instances", "desc": "%s instances, toggle %s on one" % (cls, bn), "prog": pr,
                        "world": [["o1", "obj", cls], ["top", "obj", cls]],
                        "ops": [["cmode", ["top"], bn, False], ["new", ["o3", "obj", cls]], ["randomize", ["top"]], ["randomize", ["o1"]], ["randomize", ["o3"]],
                                ["cmode", ["o3"], bn, False], ["cmode", ["top"], bn, True], ["new", ["o4", "obj", cls]],
                                ["randomize", ["top"]], ["randomize", ["o3"]], ["randomize", ["o4"]], ["randomize", ["o1"]]]})
    # nested and list-held instances
    paths = [["h", "s1"], ["h", "s2"], ["h", "l", 0], ["h", "l", 1]]
    for p in paths:
        for bn in ("ca", "cb", "cd"):
            out.append({"tag": "cmode_nested", "desc": "toggle %s of %s" % (bn, p), "prog": pr, "world": [["h", "obj", "Hold"], ["h2", "obj", "Hold"]],
                        "ops": [["randomize", ["h"]], ["cmode", p, bn, False], ["randomize", ["h"]], ["randomize", ["h2"]],
                                ["cmode", ["h"], "hk", False], ["randomize", ["h"]], ["cmode", p, bn, True], ["randomize", ["h"]]]})
    for i in range(30 if tier == "quick" else 3000):
        ops = []
        for _ in range(rnd.randint(3, 7)):
            if rnd.random() < 0.55:
                p = rnd.choice(paths + [["h"]])
                bn = "hk" if p == ["h"] else rnd.choice(["ca", "cb", "cz", "cd"])
                ops.append(["cmode", p, bn, rnd.random() < 0.4])
            else:
                ops.append(["randomize", [rnd.choice(["h", "h2"])]])
        ops.append(["randomize", ["h"]])
        out.append({"tag": "cmode_seeded", "desc": "seeded toggle history #%d" % i, "prog": pr, "world": [["h", "obj", "Hold"], ["h2", "obj", "Hold"]], "ops": ops})
    return out


# ------------------------------------------------------------------------------------------ C08 object hierarchy
def c08_programs(tier, sd):
    rnd = random.Random(sd)
    out = []
    Leaf = {"name": "Leaf", "fields": [fld("p", ("u", 8)), fld("q", ("s", 8))], "blocks": [["lb", "c", [E(["<", F("p"), lit(200)]), E(["!=", F("q"), lit(0)])]]]}
    Sub = {"name": "Sub", "fields": [fld("x", ("u", 8)), fld("y", ("u", 8)), fld("k", ("u", 4), False), ["inner", "obj", "Leaf", True]],
           "blocks": [["sb", "c", [E(["<", F("x"), lit(100)]), E(["==", F("y"), ["+", F("inner", "p"), F("k")]])]]]}
    x1, x2 = F("s1", "x"), F("s2", "x")
    cross_sets = [
        [E(["<", x1, x2])],
        [E(["==", F("s1", "inner", "p"), F("s2", "inner", "q")])],
        [E(["<", x1, x2]), E(["!=", F("s1", "inner", "p"), F("s2", "inner", "p")]), E(["==", F("a"), F("s2", "y")])],
        [["foreach", ["l"], "i", [E(["<", ["it", "i", "x"], lit(50)])]]],
        [["foreach", ["l"], "i", [E(["!=", ["it", "i", "inner", "p"], ["it", "i", "x"]]), E([">", ["it", "i", "y"], ["idx", "i"]])]]],
        [E(["==", F("l", 0, "x"), F("l", 2, "y")]), E(["<", F("l", 1, "inner", "q"), lit(-3)])],
        [["foreach", ["l"], "i", [["if", [[[">", ["idx", "i"], lit(0)], [E([">", ["it", "i", "x"], F("l", ["idx", "i", -1], "x")])]]], None]]]],
        [["unique", [x1, x2, F("l", 0, "x"), F("l", 1, "x")]]],
        [E(["in", F("a"), [x1, x2, ["rng", F("l", 0, "inner", "p"), F("l", 1, "inner", "p")]]])],
    ]
    out += [dict(p, tag="tree_nested_foreach") for p in _more_c04(tier) if p["tag"] == "obj_list:nested_foreach"]
    # switching a block of one sub-object off must not reach structurally identical sub-objects, including ones built later
    TopC = {"name": "Top", "fields": [fld("a", ("u", 8)), ["s1", "obj", "Sub", True], ["s2", "obj", "Sub", True], ["l", "list", ["obj", "Sub"], 2, True, False]],
            "blocks": [["tb", "c", [E(["<", x1, x2])]]]}
    prc = {"enums": {}, "classes": [Leaf, Sub, TopC]}
    out.append({"tag": "tree_cmode", "desc": "block of one sub-object switched off; siblings, list elements and later instances keep theirs", "prog": prc,
                "world": [["top", "obj", "Top"]],
                "ops": [["cmode", ["top", "s1"], "sb", False], ["randomize", ["top"]], ["list_append", ["top", "l"], 0], ["new", ["t2", "obj", "Top"]],
                        ["randomize", ["top"]], ["randomize", ["t2"]], ["cmode", ["top", "l", 0], "sb", False], ["cmode", ["top", "s1", "inner"], "lb", False],
                        ["list_append", ["top", "l"], 0], ["new", ["t3", "obj", "Top"]], ["randomize", ["top"]], ["randomize", ["t3"]], ["randomize", ["t2"]]]})
    # sub-objects owning a scalar list: a parent-level relation between a field of one and a constant subscript of the other's list
    SubL = {"name": "SubL", "fields": [fld("x", ("u", 8)), fld("y", ("u", 8)), ["arr", "list", ["u", 8], 3, True, False]],
            "blocks": [["ab", "c", [E(["<", F("x"), F("y")])]], ["ac", "c", [E(["<", F("arr", 0), lit(200)]), E(["!=", F("arr", 1), F("arr", 2)])]]]}
    for r2 in (True, False):
        for ci, cs in enumerate([[E(["<", ["+", F("s1", "x"), F("s2", "arr", 0)], lit(300)])], [E(["<", ["+", F("s2", "arr", 0), F("s1", "x")], lit(300)])],
                                 [E(["==", F("s1", "y"), F("s2", "arr", 1)]), E(["<", F("s2", "x"), F("s1", "arr", 2)])],
                                 [E(["<", F("s1", "x"), lit(50)]), E(["==", F("a"), F("s2", "arr", 2)]), E([">", F("s1", "arr", 0), F("s2", "arr", 0)])]]):
            TopL = {"name": "Top", "fields": [fld("a", ("u", 8)), ["s1", "obj", "SubL", True], ["s2", "obj", "SubL", r2]], "blocks": [["tb", "c", cs]]}
            out.append({"tag": "tree_sublist", "desc": "sub-objects with scalar lists, s2 rand=%s, cross set %d" % (r2, ci), "prog": {"enums": {}, "classes": [SubL, TopL]},
                        "world": [["top", "obj", "Top"]],
                        "ops": [["set", ["top", "s2", "x"], 3], ["set", ["top", "s2", "y"], 9], ["set", ["top", "s2", "arr", 0], 20], ["set", ["top", "s2", "arr", 1], 30],
                                ["set", ["top", "s2", "arr", 2], 40], ["randomize", ["top"]], ["randomize", ["top"]],
                                ["randomize_with", ["top"], [E([">", F("s1", "arr", 1), F("s1", "x")])]], ["vsc_randomize", [["top", "s1"]]]]})
    # a scalar list reached through an element of a list of objects, by constant subscripts (class block and inline)
    for ci, cs in enumerate([[E(["==", F("ll", 1, "arr", 1), lit(77)])], [E(["<", F("ll", 0, "arr", 2), F("ll", 1, "arr", 0)]), E(["==", F("a"), F("ll", 1, "arr", 2)])],
                             [E(["<", ["+", F("ll", 0, "x"), F("ll", 1, "arr", 0)], lit(300)]), E([">", F("ll", 0, "arr", 1), F("s1", "arr", 1)])]]):
        TopLL = {"name": "Top", "fields": [fld("a", ("u", 8)), ["s1", "obj", "SubL", True], ["ll", "list", ["obj", "SubL"], 2, True, False]], "blocks": [["tb", "c", cs]]}
        out.append({"tag": "tree_sublist", "desc": "scalar lists of object-list elements, cross set %d" % ci, "prog": {"enums": {}, "classes": [SubL, TopLL]},
                    "world": [["top", "obj", "Top"]],
                    "ops": [["randomize", ["top"]], ["randomize", ["top"]], ["randomize_with", ["top"], [E([">", F("ll", 1, "arr", 1), F("ll", 0, "x")])]]]})
    # sub-objects, lists and fields held in attributes whose names start with a single underscore
    SubU = {"name": "SubU", "fields": [fld("lo", ("u", 8)), fld("_hi", ("u", 8))], "blocks": [["sb", "c", [E([">", F("lo"), lit(10)]), E(["<", F("lo"), F("_hi")])]]]}
    TopU = {"name": "Top", "fields": [["_shadow", "obj", "SubU", True], ["pub", "obj", "SubU", True], ["_l", "list", ["u", 8], 2, True, False], fld("_k", ("u", 8)), fld("a", ("u", 8))],
            "blocks": [["tb", "c", [E(["<", F("_shadow", "lo"), F("pub", "lo")]), E(["==", F("_k"), ["+", F("a"), lit(1)]]), ["foreach", ["_l"], "i", [E([">", ["it", "i"], F("_k")])]]]]]}
    out.append({"tag": "tree_underscore", "desc": "underscore-named sub-object, list and fields", "prog": {"enums": {}, "classes": [SubU, TopU]}, "world": [["top", "obj", "Top"]],
                "ops": [["randomize", ["top"]], ["randomize", ["top"]], ["vsc_randomize", [["top", "_shadow"]]], ["randomize_with", ["top"], [E(["<", F("_k"), lit(100)])]]]})
    # a list of objects created with a size: the elements are distinct objects
    for lr in (True, False):
        TopP = {"name": "Top", "fields": [fld("a", ("u", 8)), ["items", "list", ["obj", "Leaf"], 4, lr, False, "presized"]],
                "blocks": [["tb", "c", [["foreach", ["items"], "i", [["if", [[[">", ["idx", "i"], lit(0)], [E([">", ["it", "i", "p"], F("items", ["idx", "i", -1], "p")])]]], None]]],
                                        E(["<", F("a"), F("items", 3, "p")])]]]}
        out.append({"tag": "tree_presized", "desc": "pre-sized list of 4 objects (rand=%s), chained elements" % lr, "prog": {"enums": {}, "classes": [Leaf, TopP]},
                    "world": [["top", "obj", "Top"]],
                    "ops": [["set", ["top", "items", 0, "p"], 7], ["set", ["top", "items", 1, "p"], 9], ["set", ["top", "items", 2, "p"], 30], ["set", ["top", "items", 3, "p"], 41],
                            ["set", ["top", "items", 0, "q"], 1], ["set", ["top", "items", 1, "q"], 2], ["set", ["top", "items", 2, "q"], 3], ["set", ["top", "items", 3, "q"], 4],
                            ["randomize", ["top"]], ["randomize", ["top"]], ["vsc_randomize", [["top", "items", 2]]], ["randomize_with", ["top"], [E(["<", F("items", 0, "p"), lit(9)])]]]})
    # seeded random cross-level constraint sets over the same tree (unsigned leaves against each other / literals; signed leaves
    # against signed leaves / literals), random rand flags, direct calls on sub-objects and list elements
    for i in range(10 if tier == "quick" else 1500):
        r1, r2, rl = rnd.random() < 0.7, rnd.random() < 0.6, rnd.random() < 0.7
        nl = rnd.randint(2, 3)
        ul = [F("a"), F("s1", "x"), F("s1", "y"), F("s2", "x"), F("s2", "y"), F("s1", "inner", "p"), F("s2", "inner", "p")] + \
             [F("l", k, f) for k in range(nl) for f in ("x", "y")] + [F("l", k, "inner", "p") for k in range(nl)]
        sl = [F("s1", "inner", "q"), F("s2", "inner", "q")] + [F("l", k, "inner", "q") for k in range(nl)]
        cs = []
        for _ in range(rnd.randint(1, 4)):
            k = rnd.random()
            op = rnd.choice(["<", "<=", ">", ">=", "==", "!="])
            if k < 0.5:
                x, y = rnd.sample(ul, 2)
                cs.append(E([op, x, y]))
            elif k < 0.65:
                cs.append(E([op, rnd.choice(ul), lit(rnd.choice([0, 1, 50, 99, 100, 199, 200, 255]))]))
            elif k < 0.8:
                x, y = rnd.sample(sl, 2)
                cs.append(E([op, x, y]))
            elif k < 0.9:
                cs.append(["if", [[[op, rnd.choice(ul), lit(rnd.randint(0, 255))], [E([rnd.choice(["<", ">", "!="]), rnd.choice(ul), rnd.choice(ul)])]]], None])
            else:
                cs.append(["foreach", ["l"], "i", [E([op, ["it", "i", rnd.choice(["x", "y"])], rnd.choice(ul[:7])])]])
        Top = {"name": "Top", "fields": [fld("a", ("u", 8)), ["s1", "obj", "Sub", r1], ["s2", "obj", "Sub", r2], ["l", "list", ["obj", "Sub"], nl, rl, False]],
               "blocks": [["tb", "c", cs]]}
        ops = []
        for pth in ([["top", "s1", "k"], ["top", "s2", "k"]] + [["top", "l", k, "k"] for k in range(nl)]):
            ops.append(["set", pth, rnd.randint(0, 15)])
        for pth, hi in [(["top", "s1", "x"], 99), (["top", "s2", "x"], 99), (["top", "s1", "inner", "p"], 199), (["top", "s2", "inner", "p"], 199), (["top", "s2", "y"], 255),
                        (["top", "s1", "y"], 255)] + [(["top", "l", k, "x"], 99) for k in range(nl)] + [(["top", "l", k, "inner", "p"], 199) for k in range(nl)]:
            ops.append(["set", pth, rnd.randint(0, hi)])
        for pth in [["top", "s1", "inner", "q"], ["top", "s2", "inner", "q"]] + [["top", "l", k, "inner", "q"] for k in range(nl)]:
            ops.append(["set", pth, rnd.choice([-128, -5, -1, 1, 7, 127])])
        calls = [["randomize", ["top"]], ["randomize", ["top"]], ["vsc_randomize", [["top", "s1"]]], ["vsc_randomize", [["top", "l", rnd.randrange(nl)]]],
                 ["vsc_randomize", [["top", "s2", "inner"]]], ["randomize_with", ["top"], [E([rnd.choice(["<", ">"]), rnd.choice(ul), rnd.choice(ul)])]]]
        rnd.shuffle(calls)
        out.append({"tag": "tree_random", "desc": "seeded random tree #%d (s1 rand=%s s2 rand=%s list rand=%s)" % (i, r1, r2, rl), "prog": {"enums": {}, "classes": [Leaf, Sub, Top]},
                    "world": [["top", "obj", "Top"]], "ops": ops + calls[:4]})
    for r1, r2, rl in itertools.product((True, False), (True, False), (True, False)):
        if tier == "quick" and (r1, r2, rl) in ((False, False, True), (False, True, False)):
            continue
        for cs in cross_sets:
            Top = {"name": "Top", "fields": [fld("a", ("u", 8)), ["s1", "obj", "Sub", r1], ["s2", "obj", "Sub", r2], ["l", "list", ["obj", "Sub"], 3, rl, False]],
                   "blocks": [["tb", "c", cs]]}
            pr = {"enums": {}, "classes": [Leaf, Sub, Top]}
            init = [["set", ["top", "s1", "k"], 1], ["set", ["top", "s2", "k"], 2], ["set", ["top", "l", 0, "k"], 3], ["set", ["top", "l", 2, "k"], 5],
                    ["set", ["top", "s1", "x"], 10], ["set", ["top", "s2", "x"], 60], ["set", ["top", "s1", "inner", "p"], 7], ["set", ["top", "s2", "inner", "q"], 7],
                    ["set", ["top", "s2", "inner", "p"], 8], ["set", ["top", "s2", "y"], 10], ["set", ["top", "s1", "y"], 8],
                    ["set", ["top", "l", 0, "x"], 5], ["set", ["top", "l", 1, "x"], 6], ["set", ["top", "l", 2, "x"], 7], ["set", ["top", "l", 2, "y"], 5],
                    ["set", ["top", "l", 0, "inner", "p"], 3], ["set", ["top", "l", 1, "inner", "p"], 9], ["set", ["top", "l", 1, "inner", "q"], -9],
                    ["set", ["top", "l", 0, "y"], 6], ["set", ["top", "l", 1, "y"], 7], ["set", ["top", "l", 2, "inner", "p"], 0], ["set", ["top", "l", 2, "inner", "q"], 1],
                    ["set", ["top", "l", 0, "inner", "q"], 1], ["set", ["top", "s1", "inner", "q"], 1]]
            ops = init + [["randomize", ["top"]], ["randomize_with", ["top"], [E([">", F("s2", "inner", "p"), F("l", 1, "x")])]],
                          ["vsc_randomize", [["top", "s1"]]], ["vsc_randomize", [["top", "l", 1]]], ["randomize", ["top"]]]
            out.append({"tag": "tree", "desc": "s1 rand=%s s2 rand=%s list rand=%s constraints %s" % (r1, r2, rl, cs), "prog": pr,
                        "world": [["top", "obj", "Top"], ["other", "obj", "Top"]], "ops": ops})
    return out


# ------------------------------------------------------------------------------------------ C14 inferred bounds
def c14_programs(tier, sd):
    rnd = random.Random(sd)
    out = []
    a, b, c, n1, n2 = F("a"), F("b"), F("c"), F("n1"), F("n2")
    fields = [fld("a", ("u", 8)), fld("b", ("u", 8)), fld("c", ("s", 8)), fld("n1", ("u", 8), False), fld("n2", ("u", 8), False),
              fld("s1", ("s", 8), False), fld("w", ("u", 16))]
    nvals = [{"n1": 0, "n2": 0, "s1": 0}, {"n1": 1, "n2": 255, "s1": -1}, {"n1": 200, "n2": 100, "s1": -128}, {"n1": 100, "n2": 200, "s1": 127},
             {"n1": 255, "n2": 1, "s1": 5}, {"n1": 128, "n2": 128, "s1": -100}]
    rel = ["<", "<=", ">", ">=", "=="]
    stmts = []
    for op in rel:
        stmts.append([E([op, a, n1])])
        stmts.append([E([op, n1, a])])
        stmts.append([E([op, a, ["+", n1, n2]])])
        stmts.append([E([op, a, ["-", n1, n2]])])
        stmts.append([E([op, ["+", n1, n2], a])])
        stmts.append([E([op, a, ["+", n1, lit(1)]])])
        stmts.append([E([op, a, lit(100)])])
        stmts.append([E([op, a, lit(-1)])])
        stmts.append([E([op, a, lit(300)])])
        stmts.append([E([op, c, lit(-5)])])
        stmts.append([E([op, c, F("s1")])])
        stmts.append([E([op, c, n1])])                     # signed field against unsigned non-random
        stmts.append([E([op, a, F("s1")])])                # unsigned field against signed non-random
        stmts.append([E([op, a, b])])
        stmts.append([E([op, a, b]), E(["<", b, n1])])
        stmts.append([E([op, a, b]), E([">", b, lit(200)]), E(["<", a, lit(250)])])
        stmts.append([E([op, F("w"), ["*", n1, n2]])])
        stmts.append([E([op, F("w"), ["+", n1, n2]])])
        stmts.append([E([op, a, ["+", b, n1]])])           # mixes random and non-random below the comparison
        stmts.append([E([op, ["+", a, n1], b])])
        stmts.append([E([op, a, ["&", n1, lit(15)]])])
        stmts.append([E([op, a, ["ps", n1, 7, 4]])])
    stmts += [
        [E(["<", a, b]), E(["<", b, F("w")]), E(["<", F("w"), lit(5)])],
        [E([">", a, b]), E([">", b, n1])],
        [E(["in", a, [["rng", lit(0), lit(10)], ["rng", lit(2), lit(3)]]])],
        [E(["in", a, [["rng", lit(2), lit(3)], ["rng", lit(0), lit(10)], lit(50)]])],
        [E(["in", a, [["rng", lit(0), lit(4)], ["rng", lit(5), lit(9)], ["rng", lit(20), lit(22)]]]), E([">", a, lit(3)])],
        [E(["in", a, [["rng", lit(9), lit(2)], lit(7)]])],
        [E(["in", a, [["rng", n1, n2], lit(3)]])],
        [E(["in", a, [lit(1), lit(5), lit(200)]]), E(["<", a, n1])],
        [E(["in", c, [["rng", lit(-3), lit(3)], lit(100)]]), E(["!=", c, lit(0)])],
        [E(["in", c, [["rng", lit(200), lit(210)], lit(-1)]])],
        [E(["notin", a, [["rng", lit(0), lit(100)]]])],
        [E(["in", a, [["rng", lit(0), lit(10)]]]), E(["in", a, [["rng", lit(5), lit(20)]]])],
        [["if", [[["<", b, lit(10)], [E(["<", a, lit(5)])]]], [E([">", a, lit(200)])]]],
        [["implies", [">", b, lit(10)], [E(["==", a, lit(5)])]], E(["<", a, lit(100)])],
        [E(["|", ["<", a, lit(5)], [">", a, lit(250)]])],
        [E(["&", ["<", a, lit(50)], [">", a, lit(5)]])],
        [E(["<", ["+", a, lit(1)], lit(5)])],
        [E(["==", ["+", a, b], ["ulit", 10, 8]])],
        [E(["<", ["ps", a, 7, 4], ["ulit", 3, 4]])],
        [],
    ]
    # part-selects that cover every bit of a signed field are still unsigned quantities; in-ranges with a random field as one end
    for op in rel:
        stmts.append([E([op, ["ps", c, 7, 0], lit(100)])])
        stmts.append([E([op, ["ps", c, 7, 0], n1])])
        stmts.append([E([op, ["ps", c, 6, 0], lit(50)])])
    stmts += [
        [E(["in", a, [["rng", lit(5), b]]])], [E(["in", a, [["rng", b, lit(250)]]])], [E(["in", a, [["rng", lit(5), b], lit(1)]]), E([">", b, lit(3)])],
        [E(["in", a, [["rng", n1, b]]])], [E(["notin", a, [["rng", lit(5), b]]])], [E(["in", c, [["rng", ["slit", -100, 8], F("s1")], ["rng", lit(5), ["ps", b, 3, 0]]]])],
    ]
    # statements that follow a nested conditional inside a conditional body stay conditional
    inner = [["implies", ["==", b, lit(1)], [E(["==", F("w"), lit(2)])]], ["if", [[["==", b, lit(1)], [E(["==", F("w"), lit(2)])]]], None],
             ["if", [[["==", b, lit(1)], [E(["==", F("w"), lit(2)])]]], [E(["<", F("w"), lit(9)])]]]
    tails = [[E(["<", a, lit(16)])], [E(["in", a, [["rng", lit(3), lit(9)]]])], [E([">", a, n1])], [E(["<", a, lit(16)]), E([">", c, lit(0)])]]
    for inn in inner:
        for tl in tails:
            stmts.append([["if", [[["==", F("w"), lit(0)], [inn] + tl]], None]])
            stmts.append([["if", [[["!=", F("w"), lit(0)], [E(["<", b, lit(3)])]]], [inn] + tl]])
            stmts.append([["implies", ["<", F("w"), lit(100)], [inn] + tl]])
            stmts.append([["if", [[["==", F("w"), lit(0)], [["implies", [">", b, lit(7)], [inn] + tl], E(["!=", a, lit(200)])]]], None], E([">=", a, lit(0)])])
    for lo1, hi1, lo2, hi2 in ((2, 4, 8, 12), (0, 0, 5, 9), (10, 20, 22, 22)):
        rngs = [["rng", lit(lo1), lit(hi1)], ["rng", lit(lo2), lit(hi2)]]
        for op in rel[:4]:
            for bnd in sorted({lo1, hi1, lo2, hi2, hi1 + 1, lo2 - 1, lo1 - 1 if lo1 > 0 else 0, hi2 + 1}):
                stmts.append([E(["in", a, rngs]), E([op, a, lit(bnd)])])
    prev = [{}, {"a": 0, "b": 255, "c": -128}, {"a": 255, "b": 0, "c": 127}, {"a": 77, "b": 77, "c": -1}]
    t = types_of(fields)
    for st in stmts:
        if not all(in_F(s[1], t) for s in st if s[0] == "e"):
            continue
        pr = one_class(fields, st)
        ops = []
        for i, nv in enumerate(nvals if tier == "thorough" else nvals[:4]):
            for n, v in nv.items():
                ops.append(["set", ["top", n], v])
            for n, v in prev[i % len(prev)].items():
                ops.append(["set", ["top", n], v])
            ops.append(["randomize", ["top"]])
        ops.append(["randomize_with", ["top"], [E(["<", a, lit(128)])]])
        out.append({"tag": "bounds", "desc": "bounds %s" % (st,), "prog": pr, "world": [["top", "obj", "Top"]], "ops": ops})
    # free-standing fields declared with non-rand types are random when passed to vsc.randomize(...)
    w = [["f0", "u", 3, False], ["f1", "s", 4, False], ["f2", "u", 3, True]]
    for cl in ([["vsc_randomize", [["f0"]]], ["vsc_randomize", [["f0"], ["f1"], ["f2"]]],
                ["vsc_randomize_with", [["f0"], ["f2"]], [E(["<", F("f0"), F("f2")]), E(["<=", F("f2"), lit(6)])]],
                ["vsc_randomize_with", [["f1"]], [E(["!=", F("f1"), lit(0)])]]]):
        out.append({"tag": "bounds_standalone", "desc": "standalone non-rand-typed fields %s" % (cl,), "prog": {"enums": {}, "classes": []}, "world": w,
                    "ops": [["set", ["f0"], 5], ["set", ["f1"], -3], ["set", ["f2"], 2], cl, cl, ["set", ["f0"], 0], cl]})
    # disabled blocks must not narrow; enum fields
    pr = one_class(fields, [E(["<", a, lit(5)])], extra_blocks=[["cb1", "c", [E([">", b, lit(250)]), E(["<", c, lit(0)])]]])
    out.append({"tag": "bounds_cmode", "desc": "disabled block does not narrow", "prog": pr, "world": [["top", "obj", "Top"]],
                "ops": [["randomize", ["top"]], ["cmode", ["top"], "cb1", False], ["randomize", ["top"]], ["cmode", ["top"], "cb0", False], ["randomize", ["top"]],
                        ["cmode", ["top"], "cb1", True], ["randomize", ["top"]]]})
    # an enum whose members are not declared in ascending value order
    EU = dict(ENUMS)
    EU["EU"] = [["URGENT", 8], ["HIGH", 4], ["NORMAL", 2], ["LOW", 1], ["NEG", -3]]
    eu = [["e", "enum", "EU", True], ["g", "enum", "EU", True], fld("a", ("u", 8))]
    for st in ([], [E(["in", F("e"), [["enum", "EU", "LOW"], ["enum", "EU", "NORMAL"], ["enum", "EU", "HIGH"]]])], [E([">=", F("e"), ["enum", "EU", "NORMAL"]])],
               [E([">", F("e"), ["enum", "EU", "LOW"]]), E(["<", F("g"), ["enum", "EU", "HIGH"]])], [E(["!=", F("e"), ["enum", "EU", "URGENT"]]), E(["<", F("e"), F("g")])],
               [E(["in", F("e"), [["enum", "EU", "URGENT"], ["enum", "EU", "NEG"]]]), E(["==", F("a"), lit(1)])]):
        out.append({"tag": "bounds_enum", "desc": "unordered enum bounds %s" % (st,), "prog": one_class(eu, st, EU), "world": [["top", "obj", "Top"]],
                    "ops": [["randomize", ["top"]], ["randomize", ["top"]], ["randomize_with", ["top"], [E(["!=", F("g"), ["enum", "EU", "LOW"]])]]]})
    ef = [["e", "enum", "E4", True], ["g", "enum", "E3", True], fld("a", ("u", 8))]
    for st in ([], [E(["!=", F("e"), ["enum", "E4", "P"]])], [E(["in", F("e"), [["enum", "E4", "Q"], ["enum", "E4", "S"]]])],
               [E([">", F("e"), ["enum", "E4", "Q"]])], [E(["==", F("a"), lit(3)])]):
        out.append({"tag": "bounds_enum", "desc": "enum bounds %s" % (st,), "prog": one_class(ef, st, ENUMS), "world": [["top", "obj", "Top"]],
                    "ops": [["randomize", ["top"]], ["randomize", ["top"]]]})
    # seeded random programs (the inferred domains of every random field are decided against the reference)
    out += [dict(p, tag="bounds_random") for p in random_programs(rnd, 40 if tier == "quick" else 4000)]
    return out + [dict(p, tag="stmt:" + p["tag"]) for p in statement_programs(tier, rnd) if p["tag"] in ("in", "in_rl", "ifelse", "bool", "unique")][::(1 if tier == "thorough" else 3)]


# ------------------------------------------------------------------------------------------ C16 fault points
def c16_programs(tier, sd):
    rnd = random.Random(sd)
    out = []
    a, b = F("a"), F("b")
    Probe = {"name": "Probe", "fields": [fld("a", ("u", 4)), fld("b", ("u", 8)), fld("ff", ("u", 4), False), ["l", "list", ["u", 8], 3, True, False]],
             "blocks": [["pb", "c", [E(["<", a, lit(8)]), E(["<", b, ["+", a, lit(3)]]), ["order", [["a"]], [["b"]]],
                                     ["foreach", ["l"], "i", [E([">", ["it", "i"], ["idx", "i"]]), E(["<", ["it", "i"], lit(50)])]],
                                     ["dist", F("l", 0), [[lit(5), 1], [["rng", lit(10), lit(12)], 2], [lit(40), 0]]]]]],
             "pre_randomize": [["raise_if", ["ff"], 1]], "post_randomize": [["raise_if", ["ff"], 2]]}
    body = [E(["<", a, lit(5)]), ["if", [[[">", b, lit(3)], [E(["==", a, lit(1)])]]], None], ["foreach", ["l"], "i", [E(["<", ["it", "i"], lit(9)])]]]
    bads = []
    for k in range(4):
        st = list(body)
        st.insert(k, ["raise", "block@%d" % k])
        bads.append({"name": "Bad%d" % k, "fields": [fld("a", ("u", 8)), fld("b", ("u", 8)), ["l", "list", ["u", 8], 2, True, False]],
                     "blocks": [["ba", "c", [E(["<", a, b])]], ["bz", "c", st]]})
    # raise nested inside an if_then / foreach body, raise inside a dynamic block, raise in the constructor
    bads.append({"name": "Bad4", "fields": [fld("a", ("u", 8)), fld("b", ("u", 8)), ["l", "list", ["u", 8], 2, True, False]],
                 "blocks": [["bz", "c", [["if", [[[">", b, lit(3)], [E(["==", a, lit(1)]), ["raise", "in-if"]]]], None]]]]})
    bads.append({"name": "Bad5", "fields": [fld("a", ("u", 8)), fld("b", ("u", 8)), ["l", "list", ["u", 8], 2, True, False]],
                 "blocks": [["bz", "c", [["foreach", ["l"], "i", [E(["<", ["it", "i"], lit(9)]), ["raise", "in-foreach"]]]]]]})
    bads.append({"name": "Bad6", "fields": [fld("a", ("u", 8)), fld("b", ("u", 8))],
                 "blocks": [["ba", "c", [E(["<", a, b])]], ["bd", "dyn", [E(["<", a, lit(3)]), ["raise", "in-dynamic"]]]]})
    bads.append({"name": "Bad8", "fields": [fld("a", ("u", 8)), fld("b", ("u", 8))],
                 "blocks": [["bz", "c", [["implies", [">", b, lit(3)], [E(["==", a, lit(1)]), ["raise", "in-implies"]]]]]]})
    bads.append({"name": "Bad9", "fields": [fld("a", ("u", 8)), fld("b", ("u", 8))],
                 "blocks": [["ba", "c", [E(["<", a, b])]], ["bz", "c", [["if", [[[">", b, lit(3)], [["implies", ["<", a, lit(9)], [["raise", "in-nested-implies"]]]]]], None]]]]})
    bads.append({"name": "Bad7", "fields": [fld("a", ("u", 8)), fld("b", ("u", 8))], "blocks": [["ba", "c", [E(["<", a, b])]]], "ctor_raise": True})
    Outer = {"name": "Outer", "fields": [["s", "obj", "Probe", True], fld("k", ("u", 8))], "blocks": [["ob", "c", [E(["<", F("k"), F("s", "b")])]]]}
    pr = {"enums": {}, "classes": [Probe] + bads + [Outer]}
    tail = [["randomize", ["p"]], ["new", ["p2", "obj", "Probe"]], ["randomize", ["p2"]], ["randomize_with", ["p2"], [E(["==", a, lit(2)])]],
            ["new", ["o", "obj", "Outer"]], ["randomize", ["o"]]]
    for bd in bads:
        out.append({"tag": "fault_ctor", "desc": "user exception while constructing %s, then further use" % bd["name"], "prog": pr,
                    "world": [["p", "obj", "Probe"]], "ops": [["randomize", ["p"]], ["new_fault", ["x", "obj", bd["name"]]]] + tail})
        out.append({"tag": "fault_ctor", "desc": "user exception while constructing %s first" % bd["name"], "prog": pr,
                    "world": [], "ops": [["new_fault", ["x", "obj", bd["name"]]], ["new", ["p", "obj", "Probe"]]] + tail})
    inl = [E(["<", a, lit(6)]), ["if", [[[">", b, lit(1)], [E(["!=", a, lit(0)])]]], None], ["foreach", ["l"], "i", [E(["<", ["it", "i"], lit(30)])]], E([">", b, lit(0)])]
    for k in range(len(inl) + 1):
        st = list(inl)
        st.insert(k, ["raise", "inline@%d" % k])
        out.append({"tag": "fault_inline", "desc": "user exception at position %d of a randomize_with body" % k, "prog": pr,
                    "world": [["p", "obj", "Probe"]], "ops": [["randomize", ["p"]], ["randomize_with", ["p"], st]] + tail})
    out.append({"tag": "fault_inline", "desc": "user exception nested in if_then inside randomize_with", "prog": pr, "world": [["p", "obj", "Probe"]],
                "ops": [["randomize_with", ["p"], [["if", [[[">", b, lit(1)], [E(["!=", a, lit(0)]), ["raise", "nested"]]]], None]]]] + tail})
    out.append({"tag": "fault_inline", "desc": "user exception in free-standing randomize_with", "prog": pr, "world": [["p", "obj", "Probe"]],
                "ops": [["vsc_randomize_with", [["p"]], [E(["<", F("p", "a"), lit(3)]), ["raise", "free"]]]] + tail})
    for ffv, which in ((1, "pre_randomize"), (2, "post_randomize")):
        out.append({"tag": "fault_hook", "desc": "user exception in %s" % which, "prog": pr, "world": [["p", "obj", "Probe"]],
                    "ops": [["randomize", ["p"]], ["set", ["p", "ff"], ffv], ["randomize", ["p"]], ["randomize_with", ["p"], [E(["<", a, lit(3)])]],
                            ["set", ["p", "ff"], 0]] + tail})
        out.append({"tag": "fault_hook", "desc": "user exception in %s of a sub-object" % which, "prog": pr, "world": [["o", "obj", "Outer"], ["p", "obj", "Probe"]],
                    "ops": [["randomize", ["o"]], ["set", ["o", "s", "ff"], ffv], ["randomize", ["o"]], ["vsc_randomize", [["o"]]], ["set", ["o", "s", "ff"], 0],
                            ["randomize", ["o"]]] + tail[:4]})
    unsat = [E(["==", a, lit(1)]), E(["==", a, lit(2)])]
    dbg = {"solve_fail_debug": 1}
    out.append({"tag": "fault_unsat_debug", "desc": "unsatisfiable calls with solve_fail_debug (diagnostics path)", "prog": pr, "world": [["p", "obj", "Probe"]],
                "ops": [["randomize", ["p"]], ["randomize_with", ["p"], unsat if False else [E(["==", a, lit(1)]), E(["==", a, lit(2)])], dbg], ["randomize", ["p"]],
                        ["randomize_with", ["p"], [E([">", F("l", 0), lit(60)])], dbg], ["randomize", ["p"], dbg], ["randomize", ["p"]]] + tail})
    # an unsatisfiable core of five constraints (more than the diagnostics' subset search tries), with and without diagnostics
    ch = [fld(x, ("u", 8)) for x in "vwxyz"]
    Chain = {"name": "Chain", "fields": ch, "blocks": [["k%d" % i, "c", [E(["<", F("vwxyz"[i]), F("vwxyz"[(i + 1) % 5])])]] for i in range(5)]}
    for dv in (1, 2):
        out.append({"tag": "fault_unsat_debug", "desc": "five-constraint unsatisfiable core, solve_fail_debug=%d" % dv, "prog": {"enums": {}, "classes": [Chain]},
                    "world": [["q", "obj", "Chain"]],
                    "ops": [["randomize", ["q"]], ["randomize", ["q"], {"solve_fail_debug": dv}], ["cmode", ["q"], "k4", False], ["randomize", ["q"]], ["cmode", ["q"], "k4", True],
                            ["randomize", ["q"], {"solve_fail_debug": dv}], ["randomize", ["q"], {"solve_fail_debug": dv}], ["cmode", ["q"], "k2", False], ["randomize", ["q"], {"solve_fail_debug": dv}]]})
    # a call aborted while its inline constraints are being expanded (an inline foreach refers to the element after the last one): the
    # per-call expansions of the class constraints must not survive it -- the list grows, the next calls constrain every element
    FE = {"name": "FE", "fields": [["l", "list", ["u", 8], 2, True, False], fld("a", ("u", 8))],
          "blocks": [["fb", "c", [["foreach", ["l"], "i", [E(["<", ["it", "i"], lit(4)])]], ["unique", [F("l", 0), F("l", 1), a]],
                                  ["dist", a, [[lit(1), 1], [lit(2), 1], [lit(3), 2]]]]]]}
    bad_inl = [["foreach", ["l"], "i", [E([">", F("l", ["idx", "i", 1]), ["it", "i"]])]]]
    out.append({"tag": "fault_expand", "desc": "randomize_with aborted during expansion (l[i+1] past the end), list grows, further calls",
                "prog": {"enums": {}, "classes": [FE]}, "world": [["t", "obj", "FE"]],
                "ops": [["randomize", ["t"]], ["illformed_call", ["t"], bad_inl], ["list_append", ["t", "l"], 0], ["list_append", ["t", "l"], 0], ["randomize", ["t"]],
                        ["randomize", ["t"]], ["illformed_call", ["t"], bad_inl], ["randomize_with", ["t"], [E(["<", a, lit(3)])]], ["new", ["t2", "obj", "FE"]],
                        ["illformed_call", ["t2"], bad_inl], ["randomize", ["t2"]]]})
    # construction of a covergroup aborted after expressions were evaluated: later calls on unrelated objects are unaffected
    for var in ("typo_kwarg", "user_raise", "user_raise_two"):
        out.append({"tag": "fault_cg", "desc": "covergroup constructor aborted (%s), then calls on unrelated objects" % var, "prog": pr, "world": [["p", "obj", "Probe"]],
                    "ops": [["randomize_with", ["p"], [E(["<", a, lit(6)])]], ["cg_fault", var], ["randomize_with", ["p"], [E(["<", a, lit(6)])]], ["cg_fault", var]] + tail})
    out.append({"tag": "fault_unsat", "desc": "unsatisfiable calls interleaved", "prog": pr, "world": [["p", "obj", "Probe"]],
                "ops": [["randomize_with", ["p"], unsat], ["randomize", ["p"]], ["randomize_with", ["p"], unsat], ["list_append", ["p", "l"], 0],
                        ["randomize_with", ["p"], unsat], ["randomize", ["p"]]] + tail})
    # a failing call on an object with a random-size list: the size may already be solved (own rand set) when the elements fail,
    # or the whole call may fail before anything is solved; appending afterwards must act on the list the user sees
    for sc, body in (([E(["<=", ["size", ["l"]], lit(4)]), E([">=", ["size", ["l"]], lit(3)])], [["foreach", ["l"], "i", [E(["in", ["it", "i"], [["rng", ["*", ["idx", "i"], lit(10)], ["+", ["*", ["idx", "i"], lit(10)], lit(5)]]]])]]]),
                     ([E(["==", ["size", ["l"]], lit(3)])], [["foreach", ["l"], "i", [E([">", ["it", "i"], lit(20)])]]]),
                     ([E(["<=", ["size", ["l"]], lit(3)]), E([">", ["size", ["l"]], lit(0)])], [E(["==", ["sum", ["l"]], lit(100)])])):
        PL = {"name": "PL", "fields": [["l", "list", ["u", 4], 0, True, True], fld("k", ("u", 8))], "blocks": [["pb", "c", sc + body]]}
        out.append({"tag": "fault_randsz", "desc": "failing calls on a random-size list %s %s" % (sc, body), "prog": {"enums": {}, "classes": [PL]},
                    "world": [["q", "obj", "PL"]],
                    "ops": [["randomize", ["q"]], ["list_append", ["q", "l"], 5], ["randomize", ["q"]], ["randomize_with", ["q"], [E(["==", F("k"), lit(1)]), E(["==", F("k"), lit(2)])]],
                            ["list_append", ["q", "l"], 6], ["randomize", ["q"]], ["list_clear", ["q", "l"]], ["list_append", ["q", "l"], 7], ["randomize", ["q"]],
                            ["randomize_with", ["q"], [E(["==", ["size", ["l"]], lit(7)])]], ["list_append", ["q", "l"], 8], ["randomize", ["q"]]]})
    # soft statements inside a dynamic block, referenced together with a conflicting inline soft, across repeated and failing calls:
    # the per-call soft bookkeeping (priorities) must start afresh every time
    SD = {"name": "SD", "fields": [fld("a", ("u", 4)), fld("b", ("u", 4))],
          "blocks": [["cb", "c", [E(["<", F("a"), lit(12)])]], ["ds", "dyn", [["soft", ["==", F("a"), lit(1)]], E(["<", F("b"), lit(9)])]]]}
    il_soft = [E(["dyn", "ds"]), ["soft", ["==", F("a"), lit(2)]]]
    unsat2 = [E(["dyn", "ds"]), E(["==", F("b"), lit(10)])]
    out.append({"tag": "fault_soft_dyn", "desc": "softs of a dynamic block vs a later inline soft, repeated and failing calls", "prog": {"enums": {}, "classes": [SD]},
                "world": [["top", "obj", "SD"]], "soft_order_fixed": True,
                "ops": [["randomize_with", ["top"], il_soft], ["randomize_with", ["top"], il_soft], ["randomize_with", ["top"], unsat2], ["randomize_with", ["top"], il_soft],
                        ["randomize_with", ["top"], unsat2], ["randomize_with", ["top"], unsat2], ["randomize_with", ["top"], il_soft], ["randomize", ["top"]],
                        ["randomize_with", ["top"], il_soft]]})
    # dist / foreach inside a dynamic block referenced from randomize_with: the per-call expansions are rolled back afterwards
    DDc = {"name": "DDc", "fields": [fld("a", ("u", 8)), fld("b", ("u", 8)), ["l", "list", ["u", 8], 2, True, False]],
           "blocks": [["cb", "c", [E(["<", F("b"), lit(200)])]],
                      ["dd", "dyn", [["dist", F("a"), [[lit(1), 1], [["rng", lit(10), lit(12)], 2], [lit(40), 0]]]]],
                      ["df", "dyn", [["foreach", ["l"], "i", [E(["<", ["it", "i"], lit(9)])]]]]]}
    out.append({"tag": "fault_dyn_dist", "desc": "dist / foreach inside dynamic blocks, referenced and not, failing and succeeding calls", "prog": {"enums": {}, "classes": [DDc]},
                "world": [["top", "obj", "DDc"]],
                "ops": [["randomize_with", ["top"], [E(["dyn", "dd"])]], ["randomize", ["top"]], ["randomize_with", ["top"], [E(["dyn", "df"])]], ["list_append", ["top", "l"], 0],
                        ["randomize_with", ["top"], [E(["dyn", "df"]), E(["dyn", "dd"])]], ["randomize_with", ["top"], [E(["dyn", "dd"]), E(["==", F("a"), lit(40)])]],
                        ["randomize", ["top"]], ["randomize_with", ["top"], [E(["dyn", "dd"])]]]})
    # failing calls on objects whose constraints reach fields only through dynamic blocks of list elements (solver handles!)
    out += [dict(p, tag="fault_" + p["tag"]) for p in c06_programs(tier, sd) if p["tag"] == "inline_fail"]
    # per-call expansions inside blocks that are switched off: nothing may be left in the model after a call that ended normally
    out += [dict(p, tag="idle_" + p["tag"]) for p in c07_programs(tier, sd) if p["tag"] in ("cmode_foreach", "cmode_order")]
    # seeded mixtures
    faults = [["new_fault", ["x", "obj", "Bad%d" % k]] for k in range(10)] + \
             [["randomize_with", ["p"], unsat], ["randomize_with", ["p"], [E(["<", a, lit(6)]), ["raise", "s"]]],
              ["seq", [["set", ["p", "ff"], 1], ["randomize", ["p"]], ["set", ["p", "ff"], 0]]],
              ["seq", [["set", ["p", "ff"], 2], ["randomize", ["p"]], ["set", ["p", "ff"], 0]]]]
    for i in range(25 if tier == "quick" else 2500):
        ops = []
        for _ in range(rnd.randint(2, 5)):
            f = rnd.choice(faults)
            ops.extend(f[1] if f[0] == "seq" else [f])
            if rnd.random() < 0.5:
                ops.append(rnd.choice([["randomize", ["p"]], ["randomize_with", ["p"], [E([">", b, lit(1)])]], ["list_append", ["p", "l"], 0]]))
        out.append({"tag": "fault_seeded", "desc": "seeded fault history #%d" % i, "prog": pr, "world": [["p", "obj", "Probe"]], "ops": ops + tail})
    return out


# ------------------------------------------------------------------------------------------ C17 pre/post randomize
def c17_programs(tier, sd):
    rnd = random.Random(sd)
    out = []
    Leaf = {"name": "Leaf", "fields": [fld("p", ("u", 8)), fld("n", ("u", 8), False)], "blocks": [["lb", "c", [E(["<", F("p"), F("n")])]]],
            "pre_randomize": [["set", ["n"], 40]], "post_randomize": []}
    Sub = {"name": "Sub", "fields": [fld("x", ("u", 8)), fld("m", ("u", 8), False), ["inner", "obj", "Leaf", True], ["kid", "obj", "Leaf", False]],
           "blocks": [["sb", "c", [E([">", F("x"), F("m")]), E(["!=", F("x"), F("inner", "p")])]]],
           "pre_randomize": [["set", ["m"], 200]], "post_randomize": []}
    for r1, r2, rl in itertools.product((True, False), repeat=3):
        Top = {"name": "Top", "fields": [fld("a", ("u", 8)), fld("t", ("u", 8), False), ["s1", "obj", "Sub", r1], ["s2", "obj", "Sub", r2],
                                         ["l", "list", ["obj", "Leaf"], 2, rl, False]],
               "blocks": [["tb", "c", [E(["==", F("a"), ["+", F("t"), lit(1)]]), E(["<", F("s1", "x"), lit(250)])]]],
               "pre_randomize": [["set", ["t"], 77]], "post_randomize": []}
        pr = {"enums": {}, "classes": [Leaf, Sub, Top]}
        ops = [["set", ["top", "t"], 5], ["set", ["top", "s1", "m"], 1], ["set", ["top", "s2", "m"], 2], ["set", ["top", "s1", "inner", "n"], 3],
               ["set", ["top", "s2", "kid", "n"], 9], ["set", ["top", "l", 0, "n"], 250],
               ["randomize", ["top"]], ["set", ["top", "t"], 6], ["set", ["top", "s1", "m"], 9],
               ["randomize_with", ["top"], [E(["<", F("a"), lit(200)])]], ["vsc_randomize", [["top"]]], ["vsc_randomize", [["top", "s1"]]],
               ["vsc_randomize", [["top", "s2", "kid"]]], ["vsc_randomize", [["top", "l", 1]]], ["vsc_randomize", [["top", "s1"], ["top", "l", 0]]],
               ["randomize_with", ["top"], [E(["==", F("a"), lit(1)]), E(["==", F("a"), lit(2)])]], ["randomize", ["top"]],
               # a failing direct call on a non-random sub-object, then the enclosing object
               ["vsc_randomize_with", [["top", "s2", "kid"]], [E(["==", F("top", "s2", "kid", "p"), lit(1)]), E(["==", F("top", "s2", "kid", "p"), lit(2)])]],
               ["randomize", ["top"]], ["vsc_randomize_with", [["top", "s1"]], [E([">", F("top", "s1", "x"), lit(255)])]], ["randomize", ["top"]]]
        out.append({"tag": "hooks", "desc": "tree s1 rand=%s s2 rand=%s list rand=%s" % (r1, r2, rl), "prog": pr,
                    "world": [["top", "obj", "Top"], ["other", "obj", "Top"]], "ops": ops})
    # the parent's pre_randomize grows its lists: the new elements (objects with hooks of their own, scalars) belong to the tree of that call
    for rl in (True, False):
        Grow = {"name": "Grow", "fields": [fld("a", ("u", 8)), ["ol", "list", ["obj", "Leaf"], 1, rl, False], ["sl", "list", ["u", 8], 1, rl, False]],
                "blocks": [["gb", "c", [["foreach", ["ol"], "i", [E(["<", ["it", "i", "p"], lit(30)])]], ["foreach", ["sl"], "i", [E([">", ["it", "i"], lit(100)])]]]]],
                "pre_randomize": [["append", ["ol"], "Leaf"], ["append", ["sl"], 150]], "post_randomize": []}
        out.append({"tag": "hooks_grow", "desc": "pre_randomize appends to an object list and a scalar list (lists rand=%s)" % rl, "prog": {"enums": {}, "classes": [Leaf, Grow]},
                    "world": [["g", "obj", "Grow"]], "ops": [["randomize", ["g"]], ["randomize", ["g"]], ["randomize_with", ["g"], [E(["<", F("a"), lit(9)])]], ["vsc_randomize", [["g"]]]]})
    # seeded random histories over the tree: rand_mode switches at every level, assignments, all call kinds (also failing ones)
    for i in range(6 if tier == "quick" else 3000):
        r1, r2, rl = (rnd.random() < 0.7), (rnd.random() < 0.5), (rnd.random() < 0.6)
        Top = {"name": "Top", "fields": [fld("a", ("u", 8)), fld("t", ("u", 8), False), ["s1", "obj", "Sub", r1], ["s2", "obj", "Sub", r2],
                                         ["l", "list", ["obj", "Leaf"], 2, rl, False]],
               "blocks": [["tb", "c", [E(["==", F("a"), ["+", F("t"), lit(1)]]), E(["<", F("s1", "x"), lit(250)])]]],
               "pre_randomize": [["set", ["t"], rnd.randint(0, 200)]], "post_randomize": []}
        pr = {"enums": {}, "classes": [Leaf, Sub, Top]}
        ops = []
        objs = [["top"], ["top", "s1"], ["top", "s2"], ["top", "s1", "inner"], ["top", "s1", "kid"], ["top", "s2", "inner"], ["top", "s2", "kid"],
                ["top", "l", 0], ["top", "l", 1]]
        for _ in range(rnd.randint(4, 10)):
            k = rnd.random()
            if k < 0.3:
                # rand_mode is a per-field switch (documented for rand-qualified scalar fields)
                ops.append(["rand_mode", rnd.choice([["top", "a"], ["top", "s1", "x"], ["top", "s2", "x"], ["top", "s1", "inner", "p"], ["top", "l", 0, "p"], ["top", "l", 1, "p"]]),
                            rnd.random() < 0.5])
            elif k < 0.45:
                ops.append(["set", rnd.choice([["top", "t"], ["top", "s1", "m"], ["top", "s2", "m"], ["top", "s1", "inner", "n"], ["top", "s2", "kid", "n"], ["top", "l", 1, "n"]]),
                            rnd.randint(0, 255)])
            elif k < 0.6:
                ops.append(["randomize", ["top"]])
            elif k < 0.7:
                ops.append(["randomize_with", ["top"], [E([rnd.choice(["<", ">", "!="]), F("a"), lit(rnd.randint(0, 255))])]])
            elif k < 0.85:
                roots = rnd.sample(objs, rnd.randint(1, 2))
                # roots must not be nested in one another
                if len(roots) == 2 and (roots[0] == roots[1][:len(roots[0])] or roots[1] == roots[0][:len(roots[1])]):
                    roots = roots[:1]
                ops.append(["vsc_randomize", roots])
            elif k < 0.93:
                o = rnd.choice([["top", "s1"], ["top", "s2", "kid"], ["top", "l", 0]])
                leaf = "x" if o == ["top", "s1"] else "p"
                ops.append(["vsc_randomize_with", [o], [E([">", F(*(o + [leaf])), lit(255)])]])
            else:
                ops.append(["randomize_with", ["top"], [E(["==", F("a"), lit(1)]), E(["==", F("a"), lit(2)])]])
        ops.append(["randomize", ["top"]])
        out.append({"tag": "hooks_random", "desc": "seeded random hook history #%d (s1 rand=%s s2 rand=%s list rand=%s)" % (i, r1, r2, rl), "prog": pr,
                    "world": [["top", "obj", "Top"]], "ops": ops})
    # hooks defined only in a derived class (the decorated base has none); list content replaced by the same number of other
    # objects between calls; calls in which nothing is left to solve
    Base0 = {"name": "Base0", "fields": [fld("p", ("u", 8)), fld("n", ("u", 8), False)], "blocks": [["bb", "c", [E(["<", F("p"), F("n")])]]]}
    Der0 = {"name": "Der0", "base": "Base0", "fields": [fld("q", ("u", 8))], "blocks": [["db", "c", [E(["!=", F("q"), F("p")])]]],
            "pre_randomize": [["set", ["n"], 40]], "post_randomize": []}
    TopD = {"name": "TopD", "fields": [["d", "obj", "Der0", True], ["k", "obj", "Der0", False], ["l", "list", ["obj", "Der0"], 2, True, False], fld("a", ("u", 8))],
            "blocks": [["tb", "c", [E(["<", F("a"), F("d", "p")])]]], "pre_randomize": [], "post_randomize": []}
    prd = {"enums": {}, "classes": [Base0, Der0, TopD]}
    out.append({"tag": "hooks_derived", "desc": "hooks defined in the derived class only", "prog": prd, "world": [["top", "obj", "TopD"], ["solo", "obj", "Der0"]],
                "ops": [["set", ["top", "d", "n"], 3], ["set", ["solo", "n"], 5], ["randomize", ["top"]], ["randomize", ["solo"]], ["vsc_randomize", [["top", "d"]]],
                        ["randomize_with", ["solo"], [E([">", F("p"), lit(2)])]], ["vsc_randomize", [["top", "l", 1]]], ["randomize", ["top"]]]})
    out.append({"tag": "hooks_list_replaced", "desc": "list of hooked objects: content replaced by as many other objects", "prog": prd, "world": [["top", "obj", "TopD"]],
                "ops": [["randomize", ["top"]], ["list_clear", ["top", "l"]], ["list_append", ["top", "l"], 0], ["list_append", ["top", "l"], 0], ["randomize", ["top"]],
                        ["list_clear", ["top", "l"]], ["list_append", ["top", "l"], 0], ["list_append", ["top", "l"], 0], ["randomize_with", ["top"], [E(["<", F("a"), lit(30)])]],
                        ["vsc_randomize", [["top"]]]]})
    Free = {"name": "Free", "fields": [fld("a", ("u", 8)), fld("b", ("u", 8)), fld("n", ("u", 8), False)], "blocks": [],
            "pre_randomize": [["set", ["n"], 9]], "post_randomize": []}
    Free2 = {"name": "Free2", "fields": [fld("a", ("u", 8)), fld("n", ("u", 8), False), ["f", "obj", "Free", True]], "blocks": [["fb", "c", [E(["<", F("a"), lit(200)])]]],
             "pre_randomize": [], "post_randomize": []}
    out.append({"tag": "hooks_nothing_to_solve", "desc": "every random field frozen / no constraints: hooks still run once each", "prog": {"enums": {}, "classes": [Free, Free2]},
                "world": [["top", "obj", "Free"], ["t2", "obj", "Free2"]],
                "ops": [["randomize", ["top"]], ["rand_mode", ["top", "a"], False], ["rand_mode", ["top", "b"], False], ["randomize", ["top"]], ["randomize", ["top"]],
                        ["vsc_randomize", [["top"]]], ["randomize_with", ["top"], []], ["rand_mode", ["top", "a"], True], ["randomize", ["top"]],
                        ["rand_mode", ["t2", "a"], False], ["rand_mode", ["t2", "f", "a"], False], ["rand_mode", ["t2", "f", "b"], False], ["randomize", ["t2"]], ["randomize", ["t2"]]]})
    # random-size lists: of objects with hooks (solved to fewer elements than were appended), and a scalar one whose size depends on
    # a non-random field that pre_randomize assigns
    for nobj, bound in ((4, 3), (3, 1), (2, 2)):
        TopL = {"name": "TopL", "fields": [["items", "list", ["obj", "Leaf"], nobj, True, True], fld("a", ("u", 8))],
                "blocks": [["tb", "c", [E(["<", ["size", ["items"]], lit(bound)]), ["foreach", ["items"], "i", [E(["!=", ["it", "i", "p"], F("a")])]]]]],
                "pre_randomize": [], "post_randomize": []}
        out.append({"tag": "hooks_randsz_obj", "desc": "random-size list of %d hooked objects, size < %d" % (nobj, bound),
                    "prog": {"enums": {}, "classes": [Leaf, TopL]}, "world": [["top", "obj", "TopL"]],
                    "ops": [["randomize", ["top"]], ["randomize", ["top"]], ["randomize_with", ["top"], [E(["<", F("a"), lit(100)])]], ["vsc_randomize", [["top"]]]]})
    for expr in (["+", F("n"), lit(1)], F("n"), ["-", F("n"), lit(1)]):
        TopS = {"name": "TopS", "fields": [["l", "list", ["u", 8], 0, True, True], fld("n", ("u", 3), False), fld("a", ("u", 8))],
                "blocks": [["tb", "c", [E(["==", ["size", ["l"]], expr]), ["foreach", ["l"], "i", [E(["<", ["it", "i"], lit(7)])]]]]],
                "pre_randomize": [["set", ["n"], 3]], "post_randomize": []}
        out.append({"tag": "hooks_randsz_size", "desc": "list size == %s with n assigned by pre_randomize" % (expr,),
                    "prog": {"enums": {}, "classes": [TopS]}, "world": [["top", "obj", "TopS"]],
                    "ops": [["set", ["top", "n"], 1], ["randomize", ["top"]], ["set", ["top", "n"], 0], ["randomize", ["top"]], ["set", ["top", "n"], 2],
                            ["randomize_with", ["top"], [E(["<", F("a"), lit(9)])]]]})
    return out


def c18_programs(tier, sd):
    """randomization as a write path: unconstrained and lightly constrained fields of every small width / signedness (in objects, in
    lists, free-standing) and enum fields whose enumerators are declared out of numeric order come back inside their declared type"""
    out = []
    EN = dict(ENUMS)
    EN["EC"] = [["OFF", 0], ["HIGH", 7], ["LOW", 2], ["MID", 3]]            # declaration order != numeric order, last-first+1 == len
    EN["ED"] = [["P", 5], ["Q", 4], ["R", 3]]                               # descending
    for w in (1, 2, 3, 4, 8):
        fields = [fld("a", ("s", w)), fld("b", ("u", w)), fld("c", ("s", w)), ["l", "list", ["s", w], 3, True, False], ["m", "list", ["u", w], 2, True, False]]
        for st in ([], [E(["!=", F("c"), lit(0)])], [E(["<=", F("a"), F("c")])]):
            out.append({"tag": "rand_in_type", "desc": "width %d fields, constraints %s" % (w, st), "prog": one_class(fields, st), "world": [["top", "obj", "Top"], ["f", "s", w, True], ["g", "u", w, False]],
                        "ops": [["randomize", ["top"]], ["randomize", ["top"]], ["vsc_randomize", [["f"]]], ["vsc_randomize", [["f"], ["g"]]], ["vsc_randomize", [["top", "a"]]], ["randomize", ["top"]]]})
    ef = [["lvl", "enum", "EC", True], ["o", "enum", "ED", True], fld("code", ("u", 8)), ["el", "list", ["enum", "EC"], 2, True, False]]
    for st in ([], [E(["==", F("code"), F("lvl")])], [E(["<", F("code"), lit(9)]), E(["==", F("code"), F("lvl")])], [E(["!=", F("lvl"), ["enum", "EC", "OFF"]]), E(["<=", F("o"), ["enum", "ED", "Q"]])],
               [["foreach", ["el"], "i", [E(["!=", ["it", "i"], ["enum", "EC", "LOW"]])]]], [E(["==", F("code"), F("o")])]):
        out.append({"tag": "enum_in_type", "desc": "enums declared out of numeric order, constraints %s" % (st,), "prog": one_class(ef, st, EN), "world": [["top", "obj", "Top"]],
                    "ops": [["randomize", ["top"]], ["randomize", ["top"]], ["randomize_with", ["top"], [E([">", F("code"), lit(0)])]], ["randomize", ["top"]]]})
    return out


# ------------------------------------------------------------------------------------------ C20 solve_order
def c20_programs(tier, sd):
    rnd = random.Random(sd)
    out = []
    a, b, c = F("a"), F("b"), F("c")
    def O(x, y):
        return ["order", [[p] for p in x], [[p] for p in y]]
    f1 = [fld("a", ("u", 1)), fld("b", ("u", 4)), fld("c", ("u", 4)), fld("n", ("u", 4), False)]
    f2 = [fld("a", ("u", 3)), fld("b", ("u", 4)), fld("c", ("s", 4)), fld("n", ("u", 4), False)]
    bodies = [
        (f1, [["if", [[["==", a, lit(0)], [E(["==", b, lit(1)])]]], None], O(["a"], ["b"])]),
        (f1, [["if", [[["==", a, lit(0)], [E(["==", b, lit(1)])]]], [E(["<", b, lit(15)])]], O(["a"], ["b"])]),
        (f1, [["implies", ["==", a, lit(1)], [E(["==", b, c])]], O(["a"], ["b", "c"])]),
        (f2, [E(["<", a, b]), O(["a"], ["b"])]),
        (f2, [E(["<", a, b]), O(["b"], ["a"])]),
        (f2, [E(["<", a, b]), E(["<", b, lit(12)]), E([">", c, lit(-3)]), E(["!=", c, lit(0)]), O(["a"], ["b"]), O(["b"], ["c"]), E(["<", c, b])]),     # chain a -> b -> c
        (f2, [E(["==", ["+", a, b], ["ulit", 9, 4]]), O(["a"], ["b"])]),
        (f2, [E(["<=", a, F("n")]), E(["<", a, b]), O(["a"], ["b"])]),
        (f2, [E(["in", a, [lit(1), lit(5), lit(6)]]), ["if", [[["==", a, lit(5)], [E(["==", b, lit(0)])]]], None], O(["a"], ["b"])]),
        (f2, [E(["<", a, b]), E(["<", b, lit(3)]), O(["a"], ["b"])]),                                   # a in {0,1}: most of a's range infeasible
        (f2, [["unique", [a, b]], E(["<", b, lit(8)]), O(["a"], ["b"])]),
        (f2, [E(["<", a, b]), O(["a", "c"], ["b"]), E(["==", c, ["slit", -2, 4]])]),
        # fields of the ordered rand set that take part in no ordering
        (f2, [E(["<", a, b]), E(["!=", c, b]), O(["a"], ["b"])]),
        (f2, [E(["<", a, b]), E(["<", c, a]), E([">", F("n"), c]), O(["b"], ["a"])]),
        # chains whose constraints mention the later members first
        (f2, [["if", [[["!=", c, lit(0)], [E(["!=", b, lit(0)])]]], None], E(["<=", a, b]), O(["a"], ["b"]), O(["b"], ["c"])]),
        (f2, [E([">", c, ["slit", -8, 4]]), ["implies", [">", c, lit(0)], [E([">", b, a])]], O(["b"], ["c"]), O(["a"], ["b"])]),
        # a 'before' list one member of which shares no constraint with the 'after' field; the same as two statements
        (f2, [E(["<", a, b]), O(["a", "c"], ["b"])]),
        (f2, [E(["<", a, b]), O(["a"], ["b"]), O(["c"], ["b"])]),
        (f2, [E(["<", a, b]), E(["<", c, lit(3)]), O(["c", "a"], ["b"])]),
        (f1, [["if", [[["==", a, lit(0)], [E(["==", b, lit(1)])]]], None], E(["<", c, lit(9)]), O(["a"], ["b", "c"])]),
    ]
    for fields, body in bodies:
        pr = one_class(fields, body)
        ops = []
        for nv in (0, 3, 7):
            ops += [["set", ["top", "n"], nv], ["randomize", ["top"]], ["randomize_with", ["top"], [E(["!=", b, lit(2)])]]]
        ops += [["vsc_randomize", [["top"]]]]
        out.append({"tag": "order", "desc": "solve_order %s" % (body,), "prog": pr, "world": [["top", "obj", "Top"]], "ops": ops})
    # enum-type fields in ordering directives (before / after / in a chain with scalar fields)
    fe_ = [["e", "enum", "E3", True], ["g", "enum", "E4", True], fld("b", ("u", 4)), fld("n", ("u", 4), False)]
    eA = ["enum", "E3", "A"]
    for body in ([["if", [[["==", F("e"), eA], [E(["==", b, lit(1)])]]], None], ["order", [["e"]], [["b"]]]],
                 [["if", [[["==", F("e"), eA], [E(["==", b, lit(1)])]]], None], ["order", [["b"]], [["e"]]]],
                 [["implies", ["!=", F("e"), eA], [E(["<", b, lit(3)])]], ["implies", ["==", F("g"), ["enum", "E4", "S"]], [E(["==", F("e"), eA])]],
                  ["order", [["g"]], [["e"]]], ["order", [["e"]], [["b"]]]]):
        out.append({"tag": "order_enum", "desc": "solve_order with enum fields %s" % (body,), "prog": one_class(fe_, body, ENUMS), "world": [["top", "obj", "Top"]],
                    "ops": [["randomize", ["top"]], ["randomize", ["top"]], ["randomize_with", ["top"], [E(["!=", b, lit(2)])]]]})
    # seeded random constraint systems over small-domain fields with random acyclic ordering directives
    for i in range(40 if tier == "quick" else 8000):
        nf = rnd.randint(3, 5)
        fields = []
        for j in range(nf):
            fields.append(fld("abcde"[j], (rnd.choice("us"), rnd.randint(1, 4)) if rnd.random() < 0.8 else (rnd.choice("us"), rnd.choice([5, 8])), j < nf - 1 or rnd.random() < 0.6))
        stmts = []
        for _ in range(rnd.randint(1, 4)):
            r = rnd.random()
            if r < 0.6:
                stmts.append(E(rand_expr(rnd, fields, 2, True)))
            elif r < 0.8:
                stmts.append(["if", [[rand_expr(rnd, fields, 1, True), [E(rand_expr(rnd, fields, 1, True))]]],
                              [E(rand_expr(rnd, fields, 1, True))] if rnd.random() < 0.5 else None])
            else:
                stmts.append(["implies", rand_expr(rnd, fields, 1, True), [E(rand_expr(rnd, fields, 2, True))]])
        rf = [f[0] for f in fields if f[3]]
        rnd.shuffle(rf)
        for _ in range(rnd.randint(1, 3)):
            cut = rnd.randint(1, len(rf) - 1)
            bef = rnd.sample(rf[:cut], rnd.randint(1, min(2, cut)))
            aft = rnd.sample(rf[cut:], rnd.randint(1, min(2, len(rf) - cut)))
            stmts.insert(rnd.randint(0, len(stmts)), O(bef, aft))
        ops = []
        for f in fields:
            if not f[3]:
                ops.append(["set", ["top", f[0]], rnd.choice(boundary_values(f[2], f[1] == "s"))])
        ops += [["randomize", ["top"]], ["randomize", ["top"]], ["randomize_with", ["top"], [E(rand_expr(rnd, fields, 1, True))]]]
        out.append({"tag": "order_random", "desc": "seeded random ordered system #%d" % i, "prog": one_class(fields, stmts), "world": [["top", "obj", "Top"]], "ops": ops})
    # ordering over list elements / list before scalar
    lf = [["l", "list", ["u", 3], 2, True, False], fld("b", ("u", 4)), fld("a", ("u", 2))]
    body = [["foreach", ["l"], "i", [E(["<", ["it", "i"], b])]], ["order", [["l"]], [["b"]]], E(["<", a, F("l", 0)]), ["order", [["a"]], [["l"]]]]
    out.append({"tag": "order_list", "desc": "order a -> list -> b", "prog": one_class(lf, body), "world": [["top", "obj", "Top"]],
                "ops": [["randomize", ["top"]], ["randomize", ["top"]]]})
    lf2 = [["l", "list", ["u", 2], 2, True, False], fld("b", ("u", 4))]
    body2 = [["foreach", ["l"], "i", [["if", [[["==", ["it", "i"], lit(0)], [E(["==", b, lit(1)])]]], None]]], ["order", [["l"]], [["b"]]]]
    out.append({"tag": "order_list", "desc": "order list -> b, the list grows between calls", "prog": one_class(lf2, body2), "world": [["top", "obj", "Top"]],
                "ops": [["randomize", ["top"]], ["list_append", ["top", "l"], 0], ["randomize", ["top"]], ["list_append", ["top", "l"], 0], ["list_append", ["top", "l"], 0],
                        ["randomize", ["top"]], ["randomize_with", ["top"], [E(["!=", b, lit(2)])]]]})
    body3 = [["foreach", ["l"], "i", [E(["<=", ["it", "i"], F("a")])]], ["order", [["a"]], [["l"]]]]
    out.append({"tag": "order_list", "desc": "order a -> list (list on the 'after' side), the list grows", "prog": one_class(lf2 + [fld("a", ("u", 2))], body3),
                "world": [["top", "obj", "Top"]], "ops": [["randomize", ["top"]], ["list_append", ["top", "l"], 0], ["randomize", ["top"]], ["randomize", ["top"]]]})
    # an unsatisfiable system with ordering
    out.append({"tag": "order", "desc": "ordered but unsatisfiable", "prog": one_class(f2, [E(["<", a, b]), E(["<", b, a]), O(["a"], ["b"])]),
                "world": [["top", "obj", "Top"]], "ops": [["randomize", ["top"]]]})
    return out


# ------------------------------------------------------------------------------------------ C04 lists
def c04_programs(tier, sd):
    rnd = random.Random(sd)
    out = []
    SZ = ["size", ["l"]]
    IT, IX = ["it", "i"], ["idx", "i"]
    k, a = F("k"), F("a")

    def fe(*body):
        return ["foreach", ["l"], "i", list(body)]
    size_cs = [[E(["<=", SZ, lit(4)])], [E(["==", SZ, lit(2)])], [E(["in", SZ, [lit(0), lit(3)]])], [E([">", SZ, lit(0)]), E(["<", SZ, lit(4)])],
               [E(["<=", SZ, lit(3)]), E([">=", SZ, lit(1)])]]
    bodies = [
        ("foreach_lt", [fe(E(["<", IT, lit(10)]))]),
        ("foreach_idx", [fe(E([">", IT, IX]))]),
        ("foreach_sorted", [fe(["if", [[[">", IX, lit(0)], [E([">", IT, F("l", ["idx", "i", -1])])]]], None])]),
        ("foreach_next", [fe(["if", [[["<", ["+", IX, lit(1)], SZ], [E(["<", IT, F("l", ["idx", "i", 1])])]]], None])]),
        ("sum_eq_field", [E(["==", ["sum", ["l"]], k])]),
        ("sum_lt", [E(["<", ["sum", ["l"]], lit(20)]), fe(E([">", IT, lit(2)]))]),
        ("unique", [["unique", [["list", ["l"]]]], fe(E(["<", IT, lit(6)]))]),
        ("size_eq_field", [E(["==", SZ, a]), fe(E(["==", IT, lit(7)]))]),
        ("size_coupled_sum", [E(["==", a, SZ]), E(["==", ["sum", ["l"]], ["+", a, lit(10)]])]),
        ("in_list", [E(["in_list", k, ["l"]]), E([">", SZ, lit(0)]), fe(E(["<", IT, lit(5)]))]),
        ("foreach_if_field", [fe(["if", [[["<", a, lit(2)], [E(["==", IT, lit(1)])]]], [E(["==", IT, lit(2)])]])]),
        ("unconstrained_elems", []),
        ("foreach_in_idx", [fe(E(["in", IT, [["rng", ["*", IX, lit(10)], ["+", ["*", IX, lit(10)], lit(5)]], ["+", IX, lit(100)]]]))]),
        ("foreach_partsel", [fe(E(["==", ["ps", F("l", ["idx", "i"]), 3, 2], ["ulit", 1, 2]]), E(["<", ["ps", k, 7, 4], ["ulit", 9, 4]])), E(["<=", SZ, lit(3)])]),
        ("foreach_notin_idx", [fe(E(["notin", IT, [["rng", lit(0), ["+", IX, lit(3)]]]])), fe(E(["<", IT, lit(12)]))]),
        ("product", [E(["<", ["product", ["l"]], lit(40)]), fe(E([">", IT, lit(1)]))]),
    ]
    for ety in (("u", 8), ("u", 4), ("s", 8)):
        for sci, sc in enumerate(size_cs):
            for bn, body in bodies:
                if tier == "quick" and (sci + len(bn)) % 2 == 1 and ety != ("u", 8):
                    continue
                if bn == "product" and ety != ("u", 4):
                    continue
                fields = [["l", "list", list(ety), 0, True, True], fld("k", ("u", 8)), fld("a", ("u", 3))]
                pr = one_class(fields, sc + body)
                ops = [["randomize", ["top"]], ["randomize", ["top"]], ["list_append", ["top", "l"], 5], ["randomize", ["top"]],
                       ["list_clear", ["top", "l"]], ["randomize", ["top"]], ["list_assign", ["top", "l"], [1, 2, 3]], ["randomize_with", ["top"], [E(["<", a, lit(4)])]],
                       ["list_append", ["top", "l"], 9], ["list_append", ["top", "l"], 8], ["vsc_randomize", [["top"]]]]
                out.append({"tag": "randsz:" + bn, "desc": "randsz %s%d size %s body %s" % (ety[0], ety[1], sc, bn), "prog": pr,
                            "world": [["top", "obj", "Top"]], "ops": ops})
    # lists of objects: content replaced (clear + append, item assignment) between calls
    ItemS = {"name": "ItemS", "fields": [fld("x", ("u", 8)), fld("y", ("u", 8))], "blocks": [["ib", "c", [E(["<", F("x"), F("y")])]]]}
    TopO = {"name": "Top", "fields": [["items", "list", ["obj", "ItemS"], 3, True, False], fld("a", ("u", 8))],
            "blocks": [["tb", "c", [["foreach", ["items"], "i", [E(["<", ["it", "i", "x"], lit(50)]), E([">", ["it", "i", "y"], ["idx", "i"]])]]]]]}
    out.append({"tag": "obj_list:replaced", "desc": "object list cleared and refilled, items assigned", "prog": {"enums": {}, "classes": [ItemS, TopO]}, "world": [["top", "obj", "Top"]],
                "ops": [["randomize", ["top"]], ["list_clear", ["top", "items"]], ["list_append", ["top", "items"], 0], ["list_append", ["top", "items"], 0], ["randomize", ["top"]],
                        ["set", ["top", "items", 0, "x"], 200], ["set", ["top", "items", 1, "x"], 201], ["randomize", ["top"]], ["list_set_obj", ["top", "items"], 1],
                        ["set", ["top", "items", 1, "x"], 222], ["randomize", ["top"]], ["list_clear", ["top", "items"]], ["randomize", ["top"]], ["list_append", ["top", "items"], 0],
                        ["randomize_with", ["top"], [E(["<", F("a"), lit(9)])]]]})
    # non-random signed list elements in a condition folded per iteration; if/else over a non-random condition with a foreach in
    # both branches
    lfc = [["cfg", "list", ["s", 8], 3, False, False], ["l", "list", ["u", 8], 3, True, False], ["m", "list", ["u", 8], 2, True, False], fld("n", ("u", 8), False)]
    for op_, kv in (("<", 0), (">=", 0), ("==", -1), ("<", -100)):
        st = [["foreach", ["l"], "i", [["if", [[[op_, F("cfg", ["idx", "i"]), lit(kv)], [E(["==", ["it", "i"], lit(1)])]]], [E(["==", ["it", "i"], lit(2)])]]]]]
        out.append({"tag": "fixedsz:signed_cfg", "desc": "foreach condition on a signed non-random list element %s %d" % (op_, kv), "prog": one_class(lfc, st), "world": [["top", "obj", "Top"]],
                    "ops": [["set", ["top", "cfg", 0], -1], ["set", ["top", "cfg", 1], 1], ["set", ["top", "cfg", 2], -128], ["randomize", ["top"]], ["set", ["top", "cfg", 1], -101],
                            ["randomize", ["top"]]]})
    for els in (True, False):
        st = [["if", [[["==", F("n"), lit(1)], [["foreach", ["l"], "i", [E(["<", ["it", "i"], lit(5)])]]]]],
               [["foreach", ["m"], "i", [E([">", ["it", "i"], lit(200)])]]] if els else None], E(["!=", F("l", 0), F("m", 0)])]
        out.append({"tag": "fixedsz:foreach_in_branches", "desc": "if/else over a non-random condition with foreach in the branches (else=%s)" % els, "prog": one_class(lfc, st),
                    "world": [["top", "obj", "Top"]],
                    "ops": [["set", ["top", "n"], 1], ["randomize", ["top"]], ["set", ["top", "n"], 0], ["randomize", ["top"]], ["randomize", ["top"]], ["set", ["top", "n"], 1],
                            ["list_append", ["top", "l"], 0], ["randomize", ["top"]]]})
    # seeded random structured programs over a random-size list
    out += random_struct_programs(rnd, 30 if tier == "quick" else 2000, randsz=True)
    # fixed-size lists with list operations between calls
    for ety in (("u", 8), ("s", 4)):
        for bn, body in bodies:
            if bn in ("size_eq_field", "size_coupled_sum", "product"):
                continue
            fields = [["l", "list", list(ety), 3, True, False], fld("k", ("u", 8)), fld("a", ("u", 3))]
            pr = one_class(fields, body)
            ops = [["randomize", ["top"]], ["list_append", ["top", "l"], 5], ["randomize", ["top"]], ["list_clear", ["top", "l"]], ["randomize", ["top"]],
                   ["list_assign", ["top", "l"], [1, 2]], ["randomize", ["top"]], ["list_append", ["top", "l"], 3], ["list_append", ["top", "l"], 4], ["list_append", ["top", "l"], 6],
                   ["randomize_with", ["top"], [E(["==", SZ, lit(5)])]]]
            out.append({"tag": "fixedsz:" + bn, "desc": "fixed list %s%d body %s" % (ety[0], ety[1], bn), "prog": pr,
                        "world": [["top", "obj", "Top"]], "ops": ops})
    # enum lists, object lists (foreach over objects, nested foreach), unique_vec
    ef = [["l", "list", ["enum", "E3"], 0, True, True], ["m", "list", ["enum", "E3"], 3, True, False]]
    for body in ([E(["<=", SZ, lit(3)]), fe(E(["!=", IT, ["enum", "E3", "A"]]))], [E(["==", SZ, lit(2)]), ["unique", [["list", ["l"]]]]],
                 [E(["<=", SZ, lit(2)]), ["unique", [["list", ["m"]]]]]):
        out.append({"tag": "enum_list", "desc": "enum lists %s" % (body,), "prog": one_class(ef, body, ENUMS), "world": [["top", "obj", "Top"]],
                    "ops": [["randomize", ["top"]], ["randomize", ["top"]], ["list_append", ["top", "m"], 5], ["randomize", ["top"]]]})
    Item = {"name": "Item", "fields": [fld("x", ("u", 8)), fld("y", ("u", 8)), ["arr", "list", ["u", 4], 2, True, False]],
            "blocks": [["ib", "c", [E(["<", F("x"), F("y")]), ["foreach", ["arr"], "j", [E(["<", ["it", "j"], lit(9)])]]]]]}
    for body in ([["foreach", ["items"], "i", [E(["<", ["it", "i", "x"], lit(50)]), E([">", ["it", "i", "y"], ["idx", "i"]])]]],
                 [["foreach", ["items"], "i", [["if", [[[">", ["idx", "i"], lit(0)], [E([">", ["it", "i", "x"], F("items", ["idx", "i", -1], "x")])]]], None]]]],
                 [E(["==", F("items", 0, "x"), F("items", 2, "y")])]):
        Top = {"name": "Top", "fields": [["items", "list", ["obj", "Item"], 3, True, False], fld("a", ("u", 8))], "blocks": [["tb", "c", body]]}
        out.append({"tag": "obj_list", "desc": "object list %s" % (body,), "prog": {"enums": {}, "classes": [Item, Top]}, "world": [["top", "obj", "Top"]],
                    "ops": [["randomize", ["top"]], ["list_append", ["top", "items"], 0], ["randomize", ["top"]], ["randomize_with", ["top"], [E(["<", F("a"), lit(9)])]]]})
    uv = [["p", "list", ["u", 2], 2, True, False], ["q", "list", ["u", 2], 2, True, False], ["r", "list", ["u", 2], 2, True, False]]
    out += _more_c04(tier)
    out.append({"tag": "unique_vec", "desc": "unique_vec over three 2-element lists", "prog": one_class(uv, [["unique_vec", [["p"], ["q"], ["r"]]]]),
                "world": [["top", "obj", "Top"]], "ops": [["randomize", ["top"]], ["randomize", ["top"]]]})
    return out


# ------------------------------------------------------------------------------------------ C15 dist support
def c15_programs(tier, sd):
    rnd = random.Random(sd)
    out = []
    a, b, n = F("a"), F("b"), F("n")
    fields = [fld("a", ("u", 8)), fld("b", ("u", 8)), fld("c", ("s", 8)), fld("n", ("u", 8), False), fld("m", ("u", 8), False)]
    dists = [
        [[lit(1), 10], [lit(2), 20], [lit(4), 40], [lit(8), 80]],
        [[lit(1), 1], [lit(2), 0], [lit(4), 3], [lit(8), 0]],
        [[["rng", lit(1), lit(4)], 1], [["rng", lit(10), lit(20)], 0], [lit(100), 5]],
        [[["rng", lit(0), lit(9)], 2], [["rng", lit(5), lit(15)], 0]],                       # zero-weight range overlapping a weighted one
        [[lit(1), n], [lit(2), F("m")], [["rng", lit(30), lit(40)], 1]],                     # weights given by non-random fields
        [[lit(0), 1], [lit(255), 1]],
        [[["rng", lit(250), lit(255)], 3], [lit(3), 1], [lit(3), 0]],                         # the same value listed with weight 0 as well
        # weights given by expressions over non-random fields that change between the calls on one object
        [[lit(1), ["*", n, F("m")]], [["rng", lit(20), lit(25)], ["+", n, lit(0)]], [lit(2), F("m")], [lit(77), 1]],
        # value AND weight both given by composite expressions over non-random fields
        [[["+", n, lit(1)], ["*", F("m"), lit(0)]], [["+", n, lit(5)], ["+", F("m"), lit(1)]], [["rng", ["+", n, lit(10)], ["+", n, lit(12)]], ["*", F("m"), lit(2)]]],
    ]
    others = [[], [E(["<", a, b])], [E([">", a, lit(3)])], [E(["!=", a, lit(1)]), E(["!=", a, lit(100)])],
              [["if", [[["<", b, lit(128)], [E(["<", a, lit(50)])]]], [E([">=", a, lit(2)])]]], [E(["==", ["+", a, b], ["ulit", 12, 8]])]]
    for d in dists:
        for o in others:
            pr = one_class(fields, [["dist", a, d]] + o)
            ops = []
            for nv, mv in ((1, 1), (0, 5), (7, 0)):
                ops += [["set", ["top", "n"], nv], ["set", ["top", "m"], mv], ["randomize", ["top"]], ["randomize_with", ["top"], [E(["<", b, lit(200)])]]]
            out.append({"tag": "dist", "desc": "dist %s with %s" % (d, o), "prog": pr, "world": [["top", "obj", "Top"]], "ops": ops})
    # the dist field's rand set is merged with others by later statements (in every statement order)
    for o in ([E(["<", b, F("c")]), E(["<", a, b])], [E(["<", a, b]), E(["<", b, F("c")])], [E(["!=", F("c"), lit(0)]), E(["<", b, F("c")]), E(["<=", a, b])]):
        for first in (True, False):
            st = ([["dist", a, dists[0]]] + o) if first else (o + [["dist", a, dists[0]]])
            out.append({"tag": "dist_merge", "desc": "dist field in a rand set merged by later statements %s" % (st,), "prog": one_class(fields, st), "world": [["top", "obj", "Top"]],
                        "ops": [["set", ["top", "n"], 1], ["set", ["top", "m"], 1], ["randomize", ["top"]], ["randomize", ["top"]]]})
    # seeded random weight lists and accompanying constraints
    for i in range(20 if tier == "quick" else 1200):
        ent = []
        for _ in range(rnd.randint(2, 5)):
            lo = rnd.randint(0, 250)
            item = lit(lo) if rnd.random() < 0.5 else ["rng", lit(lo), lit(min(255, lo + rnd.randint(0, 12)))]
            r = rnd.random()
            if r < 0.25:
                w = 0
            elif r < 0.6:
                w = rnd.randint(1, 50)
            elif r < 0.8:
                w = rnd.choice([n, F("m")])
            else:
                w = rnd.choice([["*", n, F("m")], ["+", n, lit(1)], ["+", n, F("m")]])
            ent.append([item, w])
        if all(isinstance(e[1], int) and e[1] == 0 for e in ent):
            ent[0][1] = 3
        o = []
        for _ in range(rnd.randint(0, 2)):
            o.append(E(rand_expr(rnd, fields[:3], 1, True)))
        pr = one_class(fields, [["dist", a, ent]] + o)
        ops = []
        for _ in range(3):
            ops += [["set", ["top", "n"], rnd.choice([0, 0, 1, 2, 7])], ["set", ["top", "m"], rnd.choice([0, 1, 5])], ["randomize", ["top"]]]
        ops.append(["randomize_with", ["top"], [E(["<", b, lit(200)])]])
        out.append({"tag": "dist_random", "desc": "seeded random dist #%d" % i, "prog": pr, "world": [["top", "obj", "Top"]], "ops": ops})
    # dist on a signed field, inline dist, dist under a condition, dist over list elements
    pr = one_class(fields, [["dist", F("c"), [[lit(-5), 1], [["rng", lit(-128), lit(-120)], 2], [lit(7), 0]]]])
    out.append({"tag": "dist", "desc": "dist on signed field", "prog": pr, "world": [["top", "obj", "Top"]], "ops": [["randomize", ["top"]], ["randomize", ["top"]]]})
    pr = one_class(fields, [E(["<", a, lit(200)])])
    out.append({"tag": "dist_inline", "desc": "inline dist", "prog": pr, "world": [["top", "obj", "Top"]],
                "ops": [["randomize_with", ["top"], [["dist", a, dists[1]]]], ["randomize", ["top"]], ["randomize_with", ["top"], [["dist", a, dists[2]], E([">", a, lit(2)])]]]})
    lf = [["l", "list", ["u", 8], 3, True, False]]
    pr = one_class(lf, [["foreach", ["l"], "i", [["dist", ["it", "i"], [[lit(1), 1], [lit(5), 0], [["rng", lit(10), lit(12)], 2]]]]]])
    out.append({"tag": "dist_list", "desc": "dist on list elements", "prog": pr, "world": [["top", "obj", "Top"]], "ops": [["randomize", ["top"]], ["randomize", ["top"]]]})
    lw = [["l", "list", ["u", 8], 3, True, False], ["w1", "list", ["u", 8], 3, False, False], ["w2", "list", ["u", 8], 3, False, False]]
    pr = one_class(lw, [["foreach", ["l"], "i", [["dist", ["it", "i"], [[lit(1), F("w1", ["idx", "i"])], [["rng", lit(10), lit(12)], F("w2", ["idx", "i"])], [lit(50), 1]]]]]])
    out.append({"tag": "dist_list", "desc": "dist on list elements with weights indexed by the foreach index", "prog": pr, "world": [["top", "obj", "Top"]],
                "ops": [["set", ["top", "w1", 0], 0], ["set", ["top", "w1", 1], 3], ["set", ["top", "w1", 2], 1], ["set", ["top", "w2", 0], 2], ["set", ["top", "w2", 1], 0],
                        ["set", ["top", "w2", 2], 4], ["randomize", ["top"]], ["randomize", ["top"]], ["set", ["top", "w1", 2], 0], ["set", ["top", "w2", 0], 0], ["randomize", ["top"]],
                        ["randomize_with", ["top"], [E(["!=", F("l", 0), lit(50)])]]]})
    return out


def _more_c04(tier):
    """random-size lists of objects; nested foreach through objects with inner lists of different lengths"""
    out = []
    Item = {"name": "Item", "fields": [fld("x", ("u", 8)), fld("y", ("u", 8)), ["arr", "list", ["u", 4], 2, True, False]],
            "blocks": [["ib", "c", [E(["<", F("x"), F("y")])]]], "pre_randomize": [], "post_randomize": []}
    for n1, n2, b1, b2 in ((3, 2, 8, 8), (2, 3, 8, 2), (4, 1, 3, 8)):
        Top = {"name": "Top", "fields": [["p", "list", ["obj", "Item"], n1, True, True], ["q", "list", ["obj", "Item"], n2, True, True], fld("a", ("u", 8))],
               "blocks": [["tb", "c", [E(["<=", ["size", ["p"]], lit(b1)]), E(["<=", ["size", ["q"]], lit(b2)]), E([">", ["size", ["q"]], lit(0)]),
                                       ["foreach", ["p"], "i", [E(["<", ["it", "i", "x"], lit(50)])]],
                                       ["foreach", ["q"], "i", [E([">", ["it", "i", "y"], lit(100)])]]]]]}
        out.append({"tag": "randsz_obj:two_lists", "desc": "two random-size object lists (%d,%d objects; size bounds %d,%d)" % (n1, n2, b1, b2),
                    "prog": {"enums": {}, "classes": [Item, Top]}, "world": [["top", "obj", "Top"]],
                    "ops": [["randomize", ["top"]], ["randomize", ["top"]], ["randomize_with", ["top"], [E([">=", ["size", ["p"]], lit(1)])]], ["randomize", ["top"]]]})
    # unique over fields of the current element inside a foreach over objects; a foreach nested under a condition inside a foreach
    ItemU = {"name": "ItemU", "fields": [fld("x", ("u", 2)), fld("y", ("u", 2)), ["arr", "list", ["u", 4], 2, True, False]], "blocks": []}
    for bi, body in enumerate(([["foreach", ["items"], "i", [["unique", [["it", "i", "x"], ["it", "i", "y"]]]]]],
                               [["foreach", ["items"], "i", [["unique", [["it", "i", "x"], ["it", "i", "y"], F("a")]], E(["!=", ["it", "i", "x"], ["idx", "i"]])]]],
                               [["foreach", ["items"], "i", [["if", [[["<", F("b"), lit(128)], [["foreach", [["itv", "i"], "arr"], "j", [E(["<", ["it", "j"], lit(3)])]]]]], None]]]],
                               [["foreach", ["items"], "i", [["implies", [">", ["it", "i", "x"], lit(1)], [["foreach", [["itv", "i"], "arr"], "j", [E(["==", ["it", "j"], ["idx", "i"]])]]]]]]],
                               [["foreach", ["items"], "i", [["if", [[["==", ["idx", "i"], lit(0)], [["foreach", [["itv", "i"], "arr"], "j", [E([">", ["it", "j"], lit(12)])]]]]],
                                                               [["foreach", [["itv", "i"], "arr"], "j", [E(["<", ["it", "j"], lit(2)])]]]]]]])):
        TopU = {"name": "Top", "fields": [["items", "list", ["obj", "ItemU"], 3, True, False], fld("a", ("u", 2)), fld("b", ("u", 8))], "blocks": [["tb", "c", body]]}
        out.append({"tag": "obj_list:foreach_unique_nested", "desc": "unique / conditional nested foreach inside a foreach over objects #%d" % bi, "prog": {"enums": {}, "classes": [ItemU, TopU]},
                    "world": [["top", "obj", "Top"]], "ops": [["randomize", ["top"]], ["randomize", ["top"]], ["randomize_with", ["top"], [E([">=", F("b"), lit(128)])]], ["randomize", ["top"]]]})
    # random-size scalar lists owned by the elements of a list of objects (and by a directly nested object)
    ItemR = {"name": "ItemR", "fields": [fld("x", ("u", 8)), ["v", "list", ["u", 8], 0, True, True]],
             "blocks": [["ib", "c", [E(["in", ["size", ["v"]], [["rng", lit(1), lit(3)]]]), ["foreach", ["v"], "j", [E(["<", ["it", "j"], lit(10)])]]]]]}
    TopR = {"name": "Top", "fields": [["items", "list", ["obj", "ItemR"], 2, True, False], ["one", "obj", "ItemR", True], fld("a", ("u", 8))],
            "blocks": [["tb", "c", [E(["<", F("a"), lit(50)])]]]}
    out.append({"tag": "obj_list:nested_randsz", "desc": "random-size scalar lists inside the elements of an object list", "prog": {"enums": {}, "classes": [ItemR, TopR]},
                "world": [["top", "obj", "Top"]],
                "ops": [["randomize", ["top"]], ["randomize", ["top"]], ["list_append", ["top", "items"], 0], ["randomize", ["top"]],
                        ["randomize_with", ["top"], [E([">", F("a"), lit(3)])]], ["vsc_randomize", [["top", "items", 0]]]]})
    # nested foreach: inner lists of different lengths
    Top = {"name": "Top", "fields": [["items", "list", ["obj", "Item"], 3, True, False], fld("a", ("u", 8))],
           "blocks": [["tb", "c", [["foreach", ["items"], "i", [["foreach", [["itv", "i"], "arr"], "j", [E(["<", ["it", "j"], lit(9)]), E(["!=", ["it", "j"], ["idx", "i"]])]]]]]]]}
    out.append({"tag": "obj_list:nested_foreach", "desc": "nested foreach, inner lists of lengths 2,4,3", "prog": {"enums": {}, "classes": [Item, Top]},
                "world": [["top", "obj", "Top"]],
                "ops": [["randomize", ["top"]], ["list_append", ["top", "items", 1, "arr"], 0], ["list_append", ["top", "items", 1, "arr"], 0],
                        ["list_append", ["top", "items", 2, "arr"], 0], ["randomize", ["top"]], ["list_clear", ["top", "items", 0, "arr"]], ["randomize", ["top"]],
                        ["list_append", ["top", "items", 0, "arr"], 0], ["list_append", ["top", "items", 0, "arr"], 0], ["list_append", ["top", "items", 0, "arr"], 0],
                        ["list_append", ["top", "items", 0, "arr"], 0], ["list_append", ["top", "items", 0, "arr"], 0], ["randomize", ["top"]]]})
    return out
