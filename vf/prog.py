"""Program model for E1: a small JSON-able description of pyvsc user code (classes, fields, constraint blocks, inline
constraints) from which BOTH the pyvsc source text and -- independently, in refsem.py -- the reference formula are
generated.  Nothing here imports vsc.model.

Field spec (list):  [name, kind, ...]
  [n, "u"|"s", width, rand]              scalar (bit_t / int_t, rand_ prefix when rand)   optional 5th: initial value
  [n, "enum", EnumName, rand]
  [n, "obj", ClassName, rand]            vsc.rand_attr(C()) / vsc.attr(C())
  [n, "list", elem, size, rand, randsz]  elem = ["u",w] | ["s",w] | ["enum",E] | ["obj",C]
  [n, "rl", items]                       a vsc.rangelist attribute (mutable, shared by reference)
Expression / statement forms: see refsem.py (ev / stmt).
"""
import copy

CMP = ("==", "!=", "<", "<=", ">", ">=")
ARI = ("+", "-", "*", "/", "%", "&", "|", "^", "<<", ">>")


# ------------------------------------------------------------------------------------------ class lookup
def cls_spec(prog, name):
    for c in prog["classes"]:
        if c["name"] == name:
            return c
    raise KeyError(name)


def all_fields(prog, name):
    """fields of a class including inherited ones, base first"""
    c = cls_spec(prog, name)
    out = []
    if c.get("base"):
        out.extend(all_fields(prog, c["base"]))
    out.extend(c.get("fields", []))
    return out


def all_blocks(prog, name):
    """constraint blocks visible on an instance: most-derived definition per name. returns dict name -> (kind, stmts)"""
    c = cls_spec(prog, name)
    out = {}
    if c.get("base"):
        out.update(all_blocks(prog, c["base"]))
    for b in c.get("blocks", []):
        out[b[0]] = (b[1], b[2])
    return out


# ------------------------------------------------------------------------------------------ shadow state
def mk_scalar(w, signed, rand, val=0):
    return {"k": "s", "w": w, "signed": signed, "rand": rand, "rand_mode": rand, "val": val}


def mk_enum(prog, ename, rand):
    first = prog["enums"][ename][0][1]
    return {"k": "e", "enum": ename, "w": 32, "signed": True, "rand": rand, "rand_mode": rand, "val": first}


def mk_elem(prog, elem, rand):
    if elem[0] in ("u", "s"):
        return mk_scalar(elem[1], elem[0] == "s", rand)
    if elem[0] == "enum":
        return mk_enum(prog, elem[1], rand)
    if elem[0] == "obj":
        return mk_obj(prog, elem[1], rand)
    raise Exception(elem)


def mk_obj(prog, cname, rand):
    node = {"k": "o", "cls": cname, "rand": rand, "rand_mode": rand, "fields": {}, "cmode": {}}
    for f in all_fields(prog, cname):
        n, k = f[0], f[1]
        if k in ("u", "s"):
            node["fields"][n] = mk_scalar(f[2], k == "s", f[3], f[4] if len(f) > 4 else 0)
        elif k == "enum":
            node["fields"][n] = mk_enum(prog, f[2], f[3])
        elif k == "obj":
            node["fields"][n] = mk_obj(prog, f[2], f[3])
        elif k == "list":
            elem, size, lrand, randsz = f[2], f[3], f[4], f[5]
            node["fields"][n] = {"k": "l", "elem": elem, "rand": lrand, "rand_mode": lrand, "randsz": randsz,
                                 "elems": [mk_elem(prog, elem, lrand) for _ in range(size)]}
        elif k == "rl":
            node["fields"][n] = {"k": "rl", "items": copy.deepcopy(f[2])}
        else:
            raise Exception("field kind " + str(k))
    for bn, (kind, _) in all_blocks(prog, cname).items():
        if kind == "c":
            node["cmode"][bn] = True
    return node


def get_node(root, path):
    n = root
    for p in path:
        if n["k"] == "o":
            n = n["fields"][p]
        elif n["k"] == "l":
            n = n["elems"][p]
        else:
            raise KeyError(path)
    return n


def walk_leaves(node, path=()):
    """yields (path, leafnode) for scalar/enum leaves, and (path+('size',), list) marker for list sizes"""
    k = node["k"]
    if k in ("s", "e"):
        yield path, node
    elif k == "o":
        for n, ch in node["fields"].items():
            if ch["k"] != "rl":
                for x in walk_leaves(ch, path + (n,)):
                    yield x
    elif k == "l":
        yield path + ("size",), node
        for i, ch in enumerate(node["elems"]):
            for x in walk_leaves(ch, path + (i,)):
                yield x


def mark_used_rand(node, parent_used=True, level=0):
    """which nodes are random in a call whose root is `node` (property C03/C08/C17 text):
    the root is random; below it a field / sub-object is random iff its parent is and it is declared rand with
    rand_mode on.  Sets node['used']."""
    k = node["k"]
    if k == "rl":
        return
    used = parent_used and (level == 0 or (node["rand"] and node["rand_mode"]))
    node["used"] = used
    if k == "o":
        for ch in node["fields"].values():
            mark_used_rand(ch, used, level + 1)
    elif k == "l":
        node["size_used"] = bool(node["randsz"])
        for ch in node["elems"]:
            mark_used_rand(ch, used, level + 1)


def clear_used(node):
    k = node["k"]
    if k == "rl":
        return
    node["used"] = False
    if k == "o":
        for ch in node["fields"].values():
            clear_used(ch)
    elif k == "l":
        node["size_used"] = False
        for ch in node["elems"]:
            clear_used(ch)


# ------------------------------------------------------------------------------------------ python source generation
def _py_path(base, path, itvars):
    s = base
    for p in path:
        if isinstance(p, list) and p[0] == "itv":
            s = "it_%s" % p[1]        # the iteration variable of an enclosing foreach replaces the base
            continue
        if isinstance(p, str):
            s += "." + p
        elif isinstance(p, int):
            s += "[%d]" % p
        elif isinstance(p, list) and p[0] == "idx":
            off = p[2] if len(p) > 2 else 0
            s += "[i_%s%s]" % (p[1], ("+%d" % off) if off > 0 else (("%d" % off) if off < 0 else ""))
        else:
            raise Exception("path elem %r" % (p,))
    return s


def py_expr(e, base="self"):
    k = e[0]
    if k == "f":
        return _py_path(base, e[1], None)
    if k == "it":
        s = "it_%s" % e[1]
        for p in e[2:]:
            s += "." + p
        return s
    if k == "idx":
        return "i_%s" % e[1]
    if k == "lit":
        return "(%d)" % e[1]
    if k == "ulit":
        return "vsc.unsigned(%d, %d)" % (e[1], e[2])
    if k == "slit":
        return "vsc.signed(%d, %d)" % (e[1], e[2])
    if k == "enum":
        return "%s.%s" % (e[1], e[2])
    if k == "not":
        return "(~%s)" % py_expr(e[1], base)
    if k in ("in", "notin"):
        items = []
        for it in e[2]:
            if it[0] == "rng":
                items.append("vsc.rng(%s, %s)" % (py_expr(it[1], base), py_expr(it[2], base)))
            else:
                items.append(py_expr(it, base))
        meth = "inside" if k == "in" else "not_inside"
        return "%s.%s(vsc.rangelist(%s))" % (_operand(e[1], base), meth, ", ".join(items))
    if k in ("in_rl", "notin_rl"):
        return "%s.%s(%s)" % (_operand(e[1], base), "inside" if k == "in_rl" else "not_inside", _py_path(base, e[2], None))
    if k in ("in_list", "notin_list"):
        return "%s.%s(%s)" % (_operand(e[1], base), "inside" if k == "in_list" else "not_inside", _py_path(base, e[2], None))
    if k == "ps":
        return "%s[%d:%d]" % (_operand(e[1], base), e[2], e[3])
    if k == "bit":
        return "%s[%d]" % (_operand(e[1], base), e[2])
    if k == "size":
        return _py_path(base, e[1], None) + ".size"
    if k == "sel":
        return "%s[%s]" % (_py_path(base, e[1], None), py_expr(e[2], base))
    if k == "sum":
        return _py_path(base, e[1], None) + ".sum"
    if k == "product":
        return _py_path(base, e[1], None) + ".product"
    if k == "dyn":
        return "%s.%s()" % (base, e[1])
    if k == "dynp":
        return "%s.%s()" % (_py_path(base, e[1], None), e[2])
    if k in CMP or k in ARI:
        return "(%s %s %s)" % (py_expr(e[1], base), k, py_expr(e[2], base))
    raise Exception("py_expr: " + str(e))


def _operand(e, base):
    s = py_expr(e, base)
    return s


def py_stmts(stmts, base, ind):
    out = []
    pad = "    " * ind
    if not stmts:
        return [pad + "pass"]
    for s in stmts:
        k = s[0]
        if k == "e":
            out.append(pad + py_expr(s[1], base))
        elif k == "soft":
            out.append(pad + "vsc.soft(%s)" % py_expr(s[1], base))
        elif k == "if":
            for i, (cond, body) in enumerate(s[1]):
                kw = "vsc.if_then" if i == 0 else "vsc.else_if"
                out.append(pad + "with %s(%s):" % (kw, py_expr(cond, base)))
                out.extend(py_stmts(body, base, ind + 1))
            if s[2] is not None:
                out.append(pad + "with vsc.else_then:")
                out.extend(py_stmts(s[2], base, ind + 1))
        elif k == "implies":
            out.append(pad + "with vsc.implies(%s):" % py_expr(s[1], base))
            out.extend(py_stmts(s[2], base, ind + 1))
        elif k == "unique":
            args = []
            for a in s[1]:
                args.append(_py_path(base, a[1], None) if a[0] == "list" else py_expr(a, base))
            out.append(pad + "vsc.unique(%s)" % ", ".join(args))
        elif k == "unique_vec":
            out.append(pad + "vsc.unique_vec(%s)" % ", ".join(_py_path(base, a, None) for a in s[1]))
        elif k == "foreach":
            out.append(pad + "with vsc.foreach(%s, it=True, idx=True) as (i_%s, it_%s):" % (
                _py_path(base, s[1], None), s[2], s[2]))
            out.extend(py_stmts(s[3], base, ind + 1))
        elif k == "dist":
            ws = []
            for item, w in s[2]:
                wtxt = py_expr(w, base) if isinstance(w, list) else str(w)
                if item[0] == "rng":
                    ws.append("vsc.weight((%s, %s), %s)" % (py_expr(item[1], base), py_expr(item[2], base), wtxt))
                else:
                    ws.append("vsc.weight(%s, %s)" % (py_expr(item, base), wtxt))
            out.append(pad + "vsc.dist(%s, [%s])" % (py_expr(s[1], base), ", ".join(ws)))
        elif k == "order":
            def lst(ps):
                if len(ps) == 1:
                    return _py_path(base, ps[0], None)
                return "[" + ", ".join(_py_path(base, p, None) for p in ps) + "]"
            out.append(pad + "vsc.solve_order(%s, %s)" % (lst(s[1]), lst(s[2])))
        elif k == "raise":
            out.append(pad + "raise UserFault(%r)" % s[1])
        else:
            raise Exception("py_stmts: " + str(s))
    return out


def _field_ctor(prog, f):
    n, k = f[0], f[1]
    if k in ("u", "s"):
        t = ("rand_" if f[3] else "") + ("int_t" if k == "s" else "bit_t")
        init = (", i=%d" % f[4]) if len(f) > 4 else ""
        return ["self.%s = vsc.%s(%d%s)" % (n, t, f[2], init)]
    if k == "enum":
        return ["self.%s = vsc.%s(%s)" % (n, "rand_enum_t" if f[3] else "enum_t", f[2])]
    if k == "obj":
        return ["self.%s = vsc.%s(%s())" % (n, "rand_attr" if f[3] else "attr", f[2])]
    if k == "rl":
        items = []
        for it in f[2]:
            if it[0] == "rng":
                items.append("(%d, %d)" % (it[1][1], it[2][1]))
            else:
                items.append("%d" % it[1])
        return ["self.%s = vsc.rangelist(%s)" % (n, ", ".join(items))]
    if k == "list":
        elem, size, lrand, randsz = f[2], f[3], f[4], f[5]
        presized = len(f) > 6 and f[6] == "presized" and elem[0] == "obj" and not randsz      # list of objects created with sz=N
        if elem[0] in ("u", "s"):
            et = "vsc.%s(%d)" % ("int_t" if elem[0] == "s" else "bit_t", elem[1])
        elif elem[0] == "enum":
            et = "vsc.enum_t(%s)" % elem[1]
        else:
            et = "%s()" % elem[1]
        if randsz:
            lines = ["self.%s = vsc.randsz_list_t(%s)" % (n, et)]
        elif lrand:
            lines = ["self.%s = vsc.rand_list_t(%s%s)" % (n, et, (", sz=%d" % size) if (elem[0] != "obj" or presized) and size else "")]
        else:
            lines = ["self.%s = vsc.list_t(%s%s)" % (n, et, (", sz=%d" % size) if (elem[0] != "obj" or presized) and size else "")]
        if (elem[0] == "obj" and not presized) or randsz:
            if size:
                if elem[0] == "obj":
                    lines.append("for _i in range(%d): self.%s.append(%s())" % (size, n, elem[1]))
                elif elem[0] == "enum":
                    lines.append("for _i in range(%d): self.%s.append(list(%s)[0])" % (size, n, elem[1]))
                else:
                    lines.append("for _i in range(%d): self.%s.append(0)" % (size, n))
        return lines
    raise Exception(f)


def gen_source(prog):
    L = ["import enum", "import vsc", "", "class UserFault(Exception):", "    pass", "", "EVENTS = []", "_now = lambda: 0", ""]
    for en, members in prog.get("enums", {}).items():
        L.append("class %s(enum.IntEnum):" % en)
        for m, v in members:
            L.append("    %s = %d" % (m, v))
        L.append("")
    done_factories = set()
    for c in prog["classes"]:
        if c.get("factory"):
            # classes produced by one factory function share their __qualname__ ("<factory>.<locals>.Shared")
            fn = c["factory"]
            if fn in done_factories:
                continue
            done_factories.add(fn)
            members = [x for x in prog["classes"] if x.get("factory") == fn]
            L.append("def _fac_%s(which):" % fn)
            for m in members:
                L.append("    if which == %r:" % m["name"])
                sub = gen_source({"enums": {}, "classes": [dict(m, factory=None, name="Shared")]}).split("\n")
                i0 = sub.index("@vsc.randobj")
                L.extend("        " + x for x in sub[i0:] if x.strip())
                L.append("        return Shared")
            for m in members:
                L.append("%s = _fac_%s(%r)" % (m["name"], fn, m["name"]))
            L.append("")
            continue
        L.append("@vsc.randobj")
        L.append("class %s(%s):" % (c["name"], c.get("base") or "object"))
        L.append("    def __init__(self):")
        if c.get("base"):
            L.append("        super().__init__()")
        body = []
        for f in c.get("fields", []):
            body.extend(_field_ctor(prog, f))
        if c.get("ctor_raise"):
            body.append("raise UserFault('ctor')")
        if not body:
            body = ["pass"]
        L.extend("        " + b for b in body)
        for b in c.get("blocks", []):
            L.append("    @vsc.%s" % ("constraint" if b[1] == "c" else "dynamic_constraint"))
            L.append("    def %s(self):" % b[0])
            L.extend(py_stmts(b[2], "self", 2))
        for hook in ("pre_randomize", "post_randomize"):
            if c.get(hook) is not None:
                L.append("    def %s(self):" % hook)
                L.append("        EVENTS.append((%r, id(self), self._snapshot(), _now()))" % hook)
                for act in c[hook]:
                    if act[0] == "set":
                        L.append("        %s = %d" % (_py_path("self", act[1], None), act[2]))
                    elif act[0] == "append":
                        # grow a list from the hook: a new object of the element class, or a scalar value
                        L.append("        %s.append(%s)" % (_py_path("self", act[1], None), ("%s()" % act[2]) if isinstance(act[2], str) else ("%d" % act[2])))
                    elif act[0] == "raise":
                        L.append("        raise UserFault(%r)" % hook)
                    elif act[0] == "raise_if":
                        L.append("        if int(%s) == %d: raise UserFault(%r)" % (_py_path("self", act[1], None), act[2], hook))
                L.append("    def _snapshot(self):")
                snap = []
                for f in all_fields(prog, c["name"]):
                    if f[1] in ("u", "s"):
                        snap.append("(%r, int(self.%s))" % (f[0], f[0]))
                L.append("        return [%s]" % ", ".join(snap))
        L.append("")
    return "\n".join(L)
