# A covergroup whose constructor fails after an expression has been evaluated
# (here: a misspelled keyword argument, TypeError) leaves that expression on the
# library's shared expression stack.  The next randomize_with() block - on a completely
# unrelated object - silently adopts it as an inline constraint.
import vsc
from vsc.model.solve_failure import SolveFailure

@vsc.randobj
class R:
    def __init__(self):
        self.x = vsc.rand_bit_t(4)

@vsc.covergroup
class CG:
    def __init__(self):
        self.with_sample(dict(a=vsc.bit_t(4), en=vsc.bit_t(1)))
        # 'binz' is a typo -> TypeError, raised after  (self.en == 1)  was evaluated
        self.cp = vsc.coverpoint(self.a, iff=(self.en == 1),
                                 binz=dict(x=vsc.bin_array([], (0, 15))))

r = R()
with r.randomize_with() as it:          # fine before the failed construction
    it.x < 8
assert r.x < 8

try:
    CG()
    raise SystemExit("expected the covergroup construction to fail")
except TypeError:
    pass

# Same call as above; must behave as if CG() had never been attempted
try:
    with r.randomize_with() as it:
        it.x < 8
except SolveFailure:
    raise AssertionError("randomize_with of an unrelated object fails after an aborted "
                         "covergroup construction (stale 'en == 1' became an inline constraint)")
assert r.x < 8
print("OK")
