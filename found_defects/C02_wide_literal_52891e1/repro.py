# A literal that needs more than 32 bits, compared with a field of <= 32 bits,
# makes randomize() raise a BoolectorException instead of solving.
import vsc

@vsc.randobj
class A:
    def __init__(self):
        self.a = vsc.rand_uint8_t()

    @vsc.constraint
    def c(self):
        # trivially true for every 8-bit value
        self.a < 0x100000000

a = A()
try:
    a.randomize()
except Exception as e:
    raise AssertionError("satisfiable system raised %s: %s" % (type(e).__name__, e))
assert 0 <= a.a <= 255

# same with an unsatisfiable variant: must be SolveFailure, not another exception
@vsc.randobj
class B:
    def __init__(self):
        self.a = vsc.rand_uint16_t()

    @vsc.constraint
    def c(self):
        self.a > 0x1FFFFFFFF

b = B()
try:
    b.randomize()
    raise AssertionError("unsat system returned a=%d" % b.a)
except vsc.model.solve_failure.SolveFailure:
    pass
