# A randomize_with call that is aborted by an exception while the inline
# constraints are being expanded (here: IndexError from l[i+1] on the last
# element) leaves the per-call expansions of the CLASS constraints (foreach,
# unique, dist) installed in the object's model.  The next call uses those stale
# expansions: elements appended in between are not constrained.
import vsc

@vsc.randobj
class T:
    def __init__(self):
        self.l = vsc.rand_list_t(vsc.bit_t(8), sz=2)
    @vsc.constraint
    def c(self):
        with vsc.foreach(self.l, idx=True) as i:
            self.l[i] < 4
        vsc.unique(self.l)

def constraints_hold(t):
    return all(x < 4 for x in t.l) and len(set(t.l)) == len(t.l)

# Reference session: no failed call
ok_ref = 0
for k in range(20):
    t = T()
    t.randomize()
    t.l.append(0); t.l.append(0)
    t.randomize()
    ok_ref += constraints_hold(t)
assert ok_ref == 20

# Same session with one aborted call in the middle
bad = 0
for k in range(20):
    t = T()
    t.randomize()
    try:
        with t.randomize_with() as it:
            with vsc.foreach(it.l, idx=True) as i:
                it.l[i+1] > it.l[i]          # out of range for the last i
        raise SystemExit("expected the call to fail")
    except IndexError:
        pass
    t.l.append(0); t.l.append(0)             # list now has 4 elements
    t.randomize()                            # must enforce c on all 4 elements
    if not constraints_hold(t):
        bad += 1
        last = list(t.l)
    t.randomize()
    assert constraints_hold(t)               # (the call after that is fine again)
print("calls violating the class constraints right after the aborted call: %d of 20" % bad)
assert bad == 0, "stale expanded constraints were used, e.g. l=%s (need all < 4 and unique)" % last
