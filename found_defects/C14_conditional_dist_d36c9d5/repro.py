# dist under a condition over a RANDOM field: when the condition is false the
# dist is inactive and the field may take any value of its type, but the
# library still steers the field to the dist entries -> all other values starve
import vsc
from collections import Counter

@vsc.randobj
class C:
    def __init__(self):
        self.mode = vsc.rand_bit_t(1)
        self.a = vsc.rand_bit_t(4)
    @vsc.constraint
    def c(self):
        with vsc.if_then(self.mode == 1):
            vsc.dist(self.a, [vsc.weight(1, 1), vsc.weight(2, 1)])

c = C()
cnt = Counter()
N = 600
for i in range(N):
    c.randomize()
    if c.mode == 1:
        assert c.a in (1, 2)
    cnt[(c.mode, c.a)] += 1

n_mode0 = sum(v for (m, a), v in cnt.items() if m == 0)
vals_mode0 = sorted(a for (m, a) in cnt if m == 0)
print("draws with mode==0:", n_mode0, "values of a seen there:", vals_mode0)
# (mode=0, a=x) is a solution for every x in 0..15. With ~300 draws having
# mode==0, seeing at most the two dist values is impossible for a sound sampler
# (P(a given value missing) = (15/16)^300 ~ 4e-9).
assert n_mode0 > 100
assert len(vals_mode0) > 2, "a is confined to the entries of an INACTIVE dist: %s" % vals_mode0
