# C18: elements of a signed list are stored un-reinterpreted; sum / `in` / str() / model value
# disagree with indexing and iteration
import vsc

@vsc.randobj
class item(object):
    def __init__(self):
        self.l = vsc.list_t(vsc.int_t(4), sz=0)
        self.r = vsc.rand_list_t(vsc.int_t(4), sz=3)

it = item()
it.l.append(-8)
it.l.append(7)
it.l.extend([-7])
it.r[0] = -1; it.r[1] = -1; it.r[2] = 3

errors = []
def check(what, got, exp):
    print(what, "=", repr(got), "expected", repr(exp))
    if got != exp:
        errors.append(what)

check("indexing", [int(it.l[i]) for i in range(3)], [-8, 7, -7])
check("iteration", list(it.l), [-8, 7, -7])
check("l.sum", it.l.sum, -8)                      # -8+7-7
check("-8 in l", -8 in it.l, True)
check("8 in l (8 is not an int_t(4) value)", 8 in it.l, False)
check("str(l)", str(it.l), "[-8, 7, -7]")
check("r.sum", it.r.sum, 1)
check("r.product", it.r.product, 3)
check("-1 in r", -1 in it.r, True)
raw = [int(f.get_val()) for f in it.l.get_model().field_l]
check("model values within int_t(4) range", all(-8 <= v <= 7 for v in raw), True)

assert not errors, "signed list views disagree: %s" % errors
