# Elements that the parent's pre_randomize() appends to a rand list are part of the
# object tree when solving starts.  For a list of scalars they are randomized in that
# same call; for a list of OBJECTS (and of enums) they are not: the new element gets no
# pre_randomize/post_randomize callback, is not randomized, and the parent's constraints
# treat its fields as constants.
import vsc
from enum import IntEnum
from vsc.model.solve_failure import SolveFailure

class E(IntEnum):
    A = 0; B = 1; C = 2; D = 3

log = []

@vsc.randobj
class Item:
    def __init__(self, name):
        self.name = name
        self.x = vsc.rand_bit_t(16)
    def pre_randomize(self):
        log.append(("pre", self.name))
    def post_randomize(self):
        log.append(("post", self.name))

@vsc.randobj
class Top:
    def __init__(self):
        self.sl = vsc.rand_list_t(vsc.bit_t(16), sz=0)      # scalars (reference behaviour)
        self.ol = vsc.rand_list_t(Item(""), sz=0)           # objects
    def pre_randomize(self):
        log.append(("pre", "top"))
        self.sl.append(0)
        self.ol.append(Item("item%d" % len(self.ol)))

# 1. callbacks + values
n_scalar_zero = 0; n_obj_zero = 0; missing_pre = 0; missing_post = 0
for k in range(20):
    log.clear()
    t = Top()
    t.randomize()
    assert len(t.sl) == 1 and len(t.ol) == 1
    n_scalar_zero += (t.sl[0] == 0)
    n_obj_zero += (t.ol[0].x == 0)
    missing_pre += (("pre", "item0") not in log)
    missing_post += (("post", "item0") not in log)
print("scalar element left at 0: %d/20, object element left at 0: %d/20" % (n_scalar_zero, n_obj_zero))
print("calls without pre_randomize on the new element: %d/20, without post_randomize: %d/20" % (missing_pre, missing_post))

# 2. the parent's constraints see the new element as a constant
@vsc.randobj
class Top2:
    def __init__(self):
        self.ol = vsc.rand_list_t(Item(""), sz=0)
    def pre_randomize(self):
        self.ol.append(Item("item%d" % len(self.ol)))
    @vsc.constraint
    def c(self):
        with vsc.foreach(self.ol, idx=True) as i:
            self.ol[i].x > 100
try:
    Top2().randomize()
    false_unsat = False
except SolveFailure:
    false_unsat = True
print("satisfiable problem reported as SolveFailure:", false_unsat)

assert n_scalar_zero <= 1
assert missing_pre == 0 and missing_post == 0, "pre/post_randomize not run on a random list element"
assert n_obj_zero <= 1, "random list element not randomized"
assert not false_unsat
