# C18: the initial value of an enum field (i=...) is silently ignored
from enum import Enum, IntEnum, auto
import vsc

class Color(IntEnum):
    RED = 1
    GREEN = 2
    BLUE = 4

class Mode(Enum):
    IDLE = auto()
    RUN = auto()

@vsc.randobj
class item(object):
    def __init__(self):
        self.c_r = vsc.rand_enum_t(Color, i=Color.BLUE)
        self.c_n = vsc.enum_t(Color, i=Color.GREEN)
        self.m_n = vsc.enum_t(Mode, i=Mode.RUN)
        self.w_n = vsc.bit_t(8, i=200)          # integer fields honour i=

it = item()
standalone = vsc.enum_t(Color, i=Color.BLUE)

errors = []
def check(what, got, exp):
    print(what, "=", repr(got), "expected", repr(exp))
    if got != exp:
        errors.append(what)

check("bit_t(8, i=200)", it.w_n, 200)
check("rand_enum_t(Color, i=BLUE)", it.c_r, Color.BLUE)
check("enum_t(Color, i=GREEN)", it.c_n, Color.GREEN)
check("enum_t(Mode, i=RUN)", it.m_n, Mode.RUN)
check("standalone enum_t(Color, i=BLUE).get_val()", standalone.get_val(), Color.BLUE)

# a non-random enum field keeps its value across randomize(), so the wrong
# initial value is also what constraints see
it.randomize()
check("enum_t(Color, i=GREEN) after randomize", it.c_n, Color.GREEN)

assert not errors, "enum initial values ignored: %s" % errors
