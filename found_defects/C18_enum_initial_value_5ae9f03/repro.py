# The initial value given to a (non-random) enum field is ignored.
import vsc
from enum import IntEnum

class E(IntEnum):
    A = 3
    B = 5
    C = 9

@vsc.randobj
class A:
    def __init__(self):
        self.e = vsc.enum_t(E, i=E.C)       # non-random, initial value C
        self.x = vsc.uint8_t(i=7)           # reference: scalar init works
        self.r = vsc.rand_enum_t(E)

    @vsc.constraint
    def c(self):
        self.r == self.e

o = A()
assert o.x == 7
errs = []
if o.e != E.C:
    errs.append("before randomize: e=%r, declared initial value is E.C" % (o.e,))
o.randomize()
if o.r != E.C:
    errs.append("after randomize: r=%r although r == e and e was declared as E.C" % (o.r,))
assert not errs, "; ".join(errs)
