# Indexing a list that is reached through an element of a list of objects
# (l[1].arr[1]) aborts randomize() with NotImplementedError - the same reference
# inside a foreach works.
import vsc
from vsc.model.solve_failure import SolveFailure

@vsc.randobj
class Leaf:
    def __init__(self):
        self.x = vsc.rand_uint8_t()
        self.arr = vsc.rand_list_t(vsc.uint8_t(), sz=2)

@vsc.randobj
class M:
    def __init__(self):
        self.ll = vsc.rand_list_t(Leaf(), sz=0)
        for _ in range(2):
            self.ll.append(Leaf())

    @vsc.constraint
    def c(self):
        self.ll[1].arr[1] == 77

m = M()
try:
    m.randomize()
except SolveFailure:
    raise AssertionError("SolveFailure on satisfiable system")
except Exception as e:
    raise AssertionError("randomize() raised %s: %s" % (type(e).__name__, e))
assert m.ll[1].arr[1] == 77
