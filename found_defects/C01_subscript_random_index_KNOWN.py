import vsc
@vsc.randobj
class C:
    def __init__(self):
        self.v = vsc.rand_list_t(vsc.uint8_t(), sz=4)
        self.k = vsc.rand_bit_t(2)
        self.j = vsc.rand_bit_t(2)
    @vsc.constraint
    def c(self):
        self.v[self.k] == 7
        self.j == self.k
c=C()
bad=0
for _ in range(20):
    try:
        c.randomize()
    except Exception as e:
        print("EXC", type(e).__name__, str(e)[:80]); continue
    if c.v[c.k]!=7: bad+=1; print(c.k, list(c.v))
print("bad",bad)
