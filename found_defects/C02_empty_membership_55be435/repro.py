# Membership in an EMPTY list / emptied rangelist is treated as true, and
# not_inside of an empty collection as false (both inverted).
import vsc
from vsc.model.solve_failure import SolveFailure

@vsc.randobj
class A:
    def __init__(self):
        self.a = vsc.rand_uint8_t()
        self.nl = vsc.list_t(vsc.uint8_t(), sz=0)     # non-random, empty
        self.rl = vsc.rangelist(1)                    # mutable rangelist

    @vsc.dynamic_constraint
    def in_list(self):
        self.a.inside(self.nl)

    @vsc.dynamic_constraint
    def notin_list(self):
        self.a.not_inside(self.nl)

    @vsc.dynamic_constraint
    def in_rl(self):
        self.a.inside(self.rl)

    @vsc.dynamic_constraint
    def notin_rl(self):
        self.a.not_inside(self.rl)

o = A()
o.rl.clear()          # rangelist now has no content
errs = []

def expect(name, sat):
    try:
        with o.randomize_with():
            getattr(o, name)()
        ok = True
    except SolveFailure:
        ok = False
    if ok != sat:
        errs.append("%s: %s but the system is %s" % (
            name, "returned a=%d" % o.a if ok else "SolveFailure",
            "satisfiable" if sat else "unsatisfiable"))

expect("in_list", False)      # nothing is inside an empty list
expect("notin_list", True)    # everything is outside an empty list
expect("in_rl", False)
expect("notin_rl", True)

# sanity: with content the same blocks behave
o.nl.append(7); o.rl.append(7)
with o.randomize_with():
    o.in_list()
assert o.a == 7
with o.randomize_with():
    o.notin_rl()
assert o.a != 7

assert not errs, "; ".join(errs)
