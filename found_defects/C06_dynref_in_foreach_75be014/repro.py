# A dynamic constraint referenced through a list element inside a foreach
# aborts randomize() with an internal exception.
import vsc

@vsc.randobj
class Elem:
    def __init__(self):
        self.a = vsc.rand_uint8_t()
        self.b = vsc.rand_uint8_t()

    @vsc.dynamic_constraint
    def d1(self):
        self.a == 3

@vsc.randobj
class Top:
    def __init__(self):
        self.l = vsc.rand_list_t(Elem(), sz=0)
        for _ in range(3):
            self.l.append(Elem())

    @vsc.constraint
    def c(self):
        with vsc.foreach(self.l, idx=True) as i:
            self.l[i].d1()

# reference semantics check: the same reference outside a foreach works
@vsc.randobj
class TopRef:
    def __init__(self):
        self.l = vsc.rand_list_t(Elem(), sz=0)
        for _ in range(3):
            self.l.append(Elem())

    @vsc.constraint
    def c(self):
        self.l[0].d1()
        self.l[1].d1()
        self.l[2].d1()

r = TopRef()
r.randomize()
assert [e.a for e in r.l] == [3, 3, 3]

t = Top()
try:
    t.randomize()
except vsc.model.solve_failure.SolveFailure:
    raise AssertionError("satisfiable system reported SolveFailure")
except Exception as e:
    raise AssertionError("randomize() raised %s: %s" % (type(e).__name__, e))
assert [e.a for e in t.l] == [3, 3, 3], [e.a for e in t.l]
