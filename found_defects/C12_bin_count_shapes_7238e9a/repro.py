# C12: parameterised covergroup variants with a different NUMBER of bins are merged into one type
import io, contextlib
import vsc

def quiet(f, *a, **k):
    with contextlib.redirect_stdout(io.StringIO()):
        return f(*a, **k)

@vsc.covergroup
class cg(object):
    def __init__(self, n):
        self.with_sample(dict(a=vsc.bit_t(4)))
        self.cp = vsc.coverpoint(self.a, bins=dict(x=vsc.bin_array([n], [0, 15])))

c2 = quiet(cg, 2)      # bins x[0]=0..7  x[1]=8..15
c4 = quiet(cg, 4)      # bins x[0]=0..3  x[1]=4..7  x[2]=8..11  x[3]=12..15

for v in (0, 5, 9, 15):
    quiet(c4.sample, v)          # covers all 4 bins of the 4-bin variant
quiet(c2.sample, 3)              # covers 1 of 2 bins of the 2-bin variant

def bins(cp):
    return [(cp.get_bin_name(i), cp.get_bin_hits(i)) for i in range(cp.get_n_bins())]

t2 = c2.get_model().type_cg
t4 = c4.get_model().type_cg
print("c2 inst", bins(c2.get_model().coverpoint_l[0]), quiet(c2.get_inst_coverage))
print("c4 inst", bins(c4.get_model().coverpoint_l[0]), quiet(c4.get_inst_coverage))
print("type of c2", bins(t2.coverpoint_l[0]), quiet(c2.get_coverage))
print("type of c4", bins(t4.coverpoint_l[0]), quiet(c4.get_coverage))

rpt = quiet(vsc.get_coverage_report_model)
print("types in report:", [(t.name, t.coverage, [i.name for i in t.covergroups]) for t in rpt.covergroups])

errors = []
if t2 is t4:
    errors.append("2-bin and 4-bin variants share one type covergroup")
if quiet(c2.get_coverage) != 50.0:
    errors.append("type coverage of the 2-bin variant is %s, expected 50.0 (only value 3 sampled)" % quiet(c2.get_coverage))
if bins(t4.coverpoint_l[0]) != [("x[0]", 1), ("x[1]", 1), ("x[2]", 1), ("x[3]", 1)]:
    errors.append("type data of the 4-bin variant is %s" % bins(t4.coverpoint_l[0]))
if len(rpt.covergroups) != 2:
    errors.append("report lists %d covergroup types, expected 2" % len(rpt.covergroups))
for e in errors:
    print("DEFECT:", e)
assert not errors
