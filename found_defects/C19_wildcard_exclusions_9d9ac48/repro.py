# C10/C19: ignore_bins / illegal_bins are not removed from wildcard bins
import io, contextlib
import vsc

def quiet(f, *a, **k):
    with contextlib.redirect_stdout(io.StringIO()):
        return f(*a, **k)

@vsc.covergroup
class cg(object):
    def __init__(self):
        self.with_sample(dict(a=vsc.bit_t(4)))
        self.cp_w = vsc.coverpoint(self.a,
            bins=dict(w=vsc.wildcard_bin("0b1xxx")),
            ignore_bins=dict(ig=vsc.bin(9)))
        self.cp_wa = vsc.coverpoint(self.a,
            bins=dict(wa=vsc.wildcard_bin_array([], "0b10xx")),
            illegal_bins=dict(il=vsc.bin(9)))
        # reference: the same value set written as a plain bin array is trimmed correctly
        self.cp_ref = vsc.coverpoint(self.a,
            bins=dict(wa=vsc.bin_array([], [8, 11])),
            illegal_bins=dict(il=vsc.bin(9)))

c = quiet(cg)
quiet(c.sample, 9)     # the ignored / illegal value, nothing else

m = c.get_model()
errors = []
for cp in m.coverpoint_l:
    reg = [(cp.get_bin_name(i), cp.get_bin_hits(i)) for i in range(cp.get_n_bins())]
    ign = [(cp.get_ignore_bin_name(i), cp.get_ignore_bin_hits(i)) for i in range(cp.get_n_ignore_bins())]
    ill = [(cp.get_illegal_bin_name(i), cp.get_illegal_bin_hits(i)) for i in range(cp.get_n_illegal_bins())]
    print(cp.name, "bins", reg, "ignore", ign, "illegal", ill, "cov", cp.get_coverage())
    if sum(h for _, h in reg) != 0:
        errors.append("%s: sampling the ignored/illegal value 9 incremented regular bins %s" % (cp.name, reg))
if m.coverpoint_l[1].get_n_bins() != 3:
    errors.append("cp_wa has %d regular bins, expected 3 (8,10,11)" % m.coverpoint_l[1].get_n_bins())
if m.coverpoint_l[0].get_coverage() != 0.0:
    errors.append("cp_w coverage %s after only an ignored value was sampled" % m.coverpoint_l[0].get_coverage())
for e in errors:
    print("DEFECT:", e)
assert not errors
