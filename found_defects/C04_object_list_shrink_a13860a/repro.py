# A random-size list of objects that was shrunk by randomize() still holds the
# dropped objects: indexing reaches them and append() brings them back.
import vsc

@vsc.randobj
class Item:
    def __init__(self, k=0):
        self.v = vsc.rand_uint8_t()
        self.k = k

@vsc.randobj
class T:
    def __init__(self):
        self.items = vsc.randsz_list_t(Item())

    @vsc.constraint
    def c(self):
        self.items.size == 2

t = T()
for i in range(3):
    t.items.append(Item(i))
t.randomize()

assert len(t.items) == 2 and t.items.size == 2
assert [x.k for x in t.items] == [0, 1]

errs = []
# indexing must agree with len()/iteration
try:
    x = t.items[2]
    errs.append("items[2] is reachable (k=%d) although len()==2" % x.k)
except IndexError:
    pass
if t.items[-1].k != 1:
    errs.append("items[-1] is k=%d, the last exposed element is k=1" % t.items[-1].k)

# append must act on the exposed 2-element list
t.items.append(Item(99))
if len(t.items) != 3 or [x.k for x in t.items] != [0, 1, 99]:
    errs.append("after append: len=%d content=%s, expected 3 / [0, 1, 99]" % (
        len(t.items), [x.k for x in t.items]))

assert not errs, "; ".join(errs)
