# A signed field restricted to a list of negative single values: only one of
# the listed values is ever produced.
import vsc
from collections import Counter

@vsc.randobj
class T:
    def __init__(self):
        self.b = vsc.rand_int_t(8)
        self.x = vsc.rand_int_t(16)
    @vsc.constraint
    def cc(self):
        self.b.inside(vsc.rangelist(-1, -7))
        self.x.inside(vsc.rangelist(-2, -30, -400))

t = T()
cb = Counter(); cx = Counter()
for i in range(300):
    t.randomize()
    assert t.b in (-1, -7) and t.x in (-2, -30, -400)
    cb[t.b] += 1; cx[t.x] += 1
print("b:", dict(cb)); print("x:", dict(cx))
# each listed value is a solution; with 300 draws P(miss) for a fair pick is 2^-300
assert set(cb) == {-1, -7}, "b never takes some legal value: %s" % dict(cb)
assert set(cx) == {-2, -30, -400}, "x never takes some legal value: %s" % dict(cx)
