#!/bin/bash
# usage: ./run_check.sh <C01..C20> <quick|thorough>   |   ./run_check.sh --replay <replay.json>
cd /verif
./setup_env.sh || { echo "HARNESS-ERROR: environment setup failed"; exit 3; }
export PYTHONHASHSEED=0 PYTHONPATH=/verif PYTHONDONTWRITEBYTECODE=1 PYTHONWARNINGS=ignore
# seed regression only (tools/regress_seeds.sh): analyse a scratch worktree instead of /repo
[ -n "$VERIF_REPO" ] && export PYTHONPATH=$VERIF_REPO/src:/verif
if [ "$1" = "--replay" ]; then
  exec /verif/.venv/bin/python -m vf.replay "$2"
fi
ID=$(echo "$1" | tr 'A-Z' 'a-z')
export VERIF_TIER=${2:-${VERIF_TIER:-quick}}
exec /verif/.venv/bin/python -m checks.$ID $VERIF_TIER
