#!/usr/bin/env python3
"""tools/hunt.py <n> <seed> -- exploratory run of the seeded random structured programs (not a registered check):
prints the findings of kinds that C01/C02 count as violations.  Output goes to a scratch directory (VERIF_OUT)."""
import sys, os, random
os.environ.setdefault("VERIF_OUT", "/tmp/hunt_out")
sys.path.insert(0, "/verif")
from vf.common import Check, assert_repo_import
from vf import gen, e1run
KINDS = ("under_constrained", "over_constrained", "returned_values_violate", "out_of_type", "nonrandom_changed", "other_exception",
         "spurious_failure", "missed_failure", "unmapped_var", "trace_t1", "trace_t2", "read_model")
assert_repo_import()
chk = Check("HUNT", "other", explanation="exploration", functions=[])
specs = gen.random_struct_programs(random.Random(int(sys.argv[2])), int(sys.argv[1]), randsz=(len(sys.argv) > 3 and sys.argv[3] == "randsz"))
e1run.run_specs(chk, specs, KINDS)
chk.finish()
