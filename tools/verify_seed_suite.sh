#!/bin/bash
# usage: tools/verify_seed_suite.sh <seeddir>...   -- runs the repository's full test suite with each seed patch applied, in a scratch
# worktree of /repo HEAD (removed afterwards); writes <seeddir>/suite_result.txt
for D in "$@"; do
  [ -f $D/suite_result.txt ] && continue
  WT=/tmp/wt/verify_$$
  git -C /repo worktree add -q --detach $WT HEAD || continue
  if git -C $WT apply $D/patch.diff 2>/dev/null || git -C $WT apply --3way $D/patch.diff 2>/dev/null; then
    (cd $WT && PYTHONPATH=$WT/src timeout 3000 /venv/bin/python -m pytest -q -p no:cacheprovider --timeout=900 -n 6 -W ignore::DeprecationWarning ve/unit 2>&1 | tail -3 > $D/suite_tail.txt)
    grep -E "passed|failed" $D/suite_tail.txt | tail -1 > $D/suite_result.txt
    echo "head=$(git -C /repo rev-parse --short HEAD)" >> $D/suite_result.txt
  else
    echo "patch does not apply to $(git -C /repo rev-parse --short HEAD)" > $D/suite_result.txt
  fi
  git -C /repo worktree remove --force $WT
  echo "$D: $(head -1 $D/suite_result.txt)"
done
