#!/bin/bash
# usage: tools/eval_seed.sh <seed dir (with patch.diff, demo.py)> <CHECK-ID> [tier]
# applies the patch to /repo, runs the demo and the check, and restores /repo.
D=$1; ID=$2; TIER=${3:-quick}
cd /repo || exit 2
if [ -n "$(git status --porcelain --untracked-files=no)" ]; then echo "repo dirty"; exit 2; fi
/venv/bin/python $D/demo.py >/dev/null 2>&1; echo "demo on clean tree: rc=$?"
if ! git apply --check $D/patch.diff 2>/dev/null; then
  if git apply --3way $D/patch.diff 2>/dev/null; then echo "applied with 3way"; git reset -q; else echo "PATCH DOES NOT APPLY"; git reset -q --hard HEAD; exit 4; fi
else
  git apply $D/patch.diff
fi
git diff --stat | tail -1
/venv/bin/python $D/demo.py >/dev/null 2>&1; echo "demo with patch: rc=$?"
(cd /verif && ./run_check.sh $ID $TIER 2>/dev/null | grep -E "^VIOLATION|^SUMMARY|^HARNESS|^KNOWN" | cut -c1-260 | awk 'NR<=3 || /SUMMARY/'; echo "check exit: ${PIPESTATUS[0]}")
git checkout -- . ; git status --porcelain --untracked-files=no
