#!/usr/bin/env python3
"""Regenerates /verif/MANIFEST.json from the table below (single source of truth for the interface)."""
import json, os
V = os.path.dirname(os.path.dirname(os.path.abspath(__file__)))
BASE = "cd /repo && /venv/bin/python -m pytest -ra -q -p no:cacheprovider --timeout=900 --continue-on-collection-errors"

E3_NOTE = ("Trusted base: z3 5.1 (Int / BitVec theories), the symex-lite engine vf/symex.py (operator semantics "
           "differential-tested against Python ints at every run), the listed module-level stand-ins (identity on concrete "
           "values), CPython. Every counterexample is replayed on plain integers against the unpatched code before it is reported.")
E1_NOTE = ("Trusted base: z3 5.1 (QF_BV), the Boolector mirror vf/mirror.py (every real Sat() verdict and model is cross-checked "
           "against the mirrored formula at run time), the reference semantics vf/refsem.py (SystemVerilog sizing/signing for "
           "fragment F of DESIGN.md section 4), pyboolector/Boolector itself for the values finally returned. Non-random field values "
           "are concrete per run; programs/histories are enumerated up to the stated bounds. Counterexamples are replayed through the "
           "public API with the real solver before they are reported.")

CHECKS = {}
NA = {}

def e3(pid, text, technique, ref):
    CHECKS[pid] = dict(level=("other", text, ref), note=E3_NOTE, technique=technique, engine="E3 symex-lite")

def e1(pid, text, technique, ref, cat="translation_validation"):
    CHECKS[pid] = dict(level=(cat, text, ref), note=E1_NOTE, technique=technique, engine="E1 btor-mirror")

exec(open(os.path.join(V, "tools", "manifest_table.py")).read())

props = [json.loads(l)["id"] for l in open(os.path.join(V, "properties.jsonl"))]
m = {
 "version": 1,
 "setup_cmd": "cd /verif && ./setup_env.sh",
 "hooks": {"guard": "PYVSC_VERIF", "enable": "none needed: no source hooks exist; all instrumentation is applied at run time from /verif "
           "(substitution of vsc.model.randomizer.Boolector, wrappers, module-level stand-ins)",
           "baseline_off_cmd": BASE, "source_commits": [], "add_only": True},
 "engines": [
  {"name": "E1 btor-mirror", "path": "vf/mirror.py, vf/refsem.py, vf/e1.py", "serves_properties": sorted(p for p,c in CHECKS.items() if c["engine"].startswith("E1")),
   "kind_free_text": "translation validation: the real lowering is executed against a z3-mirrored Boolector; the asserted formula is proved equivalent (z3, QF_BV) to an independent reference lowering for all random-field values"},
  {"name": "E3 symex-lite", "path": "vf/symex.py, vf/e3.py", "serves_properties": sorted(p for p,c in CHECKS.items() if c["engine"].startswith("E3")),
   "kind_free_text": "bounded symbolic execution of the real Python kernels with z3 (fork by re-execution), obligations discharged per path"},
 ],
 "checks": [],
 "notes": "See DESIGN.md. Exit codes: 0 held, 1 reproduced unlisted violation, 3 harness error. known_findings.json lists genuine defects (fixed or known).",
 "not_applicable": [],
}
for pid in props:
    if pid in CHECKS:
        c = CHECKS[pid]
        m["checks"].append({
          "property_id": pid,
          "quick_cmd": "./run_check.sh %s quick" % pid,
          "thorough_cmd": "./run_check.sh %s thorough" % pid,
          "evidence_file": "/verif/evidence/%s.json" % pid,
          "replay_cmd_template": "./run_check.sh --replay {path}",
          "engine": c["engine"],
          "level_claimed": {"category": c["level"][0], "text": c["level"][1], "design_ref": c["level"][2]},
          "level_note": c["note"],
          "technique": c["technique"],
        })
    else:
        m["not_applicable"].append({"property_id": pid, "reason": NA.get(pid, "check not built yet (work in progress); not claimed")})
json.dump(m, open(os.path.join(V, "MANIFEST.json"), "w"), indent=1)
print("claimed:", sorted(CHECKS), "not applicable:", [x["property_id"] for x in m["not_applicable"]])
