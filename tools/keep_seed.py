#!/usr/bin/env python3
"""keep_seed.py <seeddir> <property> <name> <caught_by> <status> -- copy a confirmed seeded change into /verif/seeded/"""
import sys, os, json, shutil, re
src, prop, name, caught_by, status = sys.argv[1:6]
dst = os.path.join("/verif/seeded", prop, name)
os.makedirs(dst, exist_ok=True)
shutil.copy(os.path.join(src, "patch.diff"), os.path.join(dst, "patch.diff"))
shutil.copy(os.path.join(src, "demo.py"), os.path.join(dst, "demo.py"))
notes = open(os.path.join(src, "notes.txt")).read() if os.path.exists(os.path.join(src, "notes.txt")) else ""
suite = open(os.path.join(src, "suite_result.txt")).read().strip() if os.path.exists(os.path.join(src, "suite_result.txt")) else "not re-run"
meta = {
    "property": prop,
    "what": notes.strip(),
    "needs_to_manifest": "see 'what' (the author's notes describe the specific condition)",
    "confirmed": {
        "demo_without_patch": "exit 0", "demo_with_patch": "exit != 0",
        "test_suite_with_patch": suite,
        "how": "tools/eval_seed.sh (git -C /repo apply, demo, check, git checkout) and tools/verify_seed_suite.sh (full suite in a scratch worktree)",
    },
    "detection": {"check": caught_by, "status": status},
    "ported": os.path.exists(os.path.join(src, "patch_orig.diff")),
}
if meta["ported"]:
    shutil.copy(os.path.join(src, "patch_orig.diff"), os.path.join(dst, "patch_orig.diff"))
json.dump(meta, open(os.path.join(dst, "meta.json"), "w"), indent=1)
print("kept", dst)
