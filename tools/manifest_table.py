# table of claimed checks; exec'd by gen_manifest.py
NA["C09"] = ("random stability quantifies over processes, PYTHONHASHSEED, memory layout and the interpreter's global RNG state; none of "
             "these is an input a solver query over the code can range over (needs cross-process differential runs, a different technique)")

e3("C18", "Bounded symbolic execution of the real setters/getters/part-select/list code: for every enumerated (width 1..64, signedness, "
          "write path, read path, part-select bounds) the assigned/previous values are symbolic integers with |v| <= 2^72 and z3 shows on "
          "every feasible path that each read equals the two's-complement reduction, that all read paths agree and that a part-select write "
          "changes exactly the selected bits. Holds for all values within the bound; widths/paths are enumerated, not proved for all programs.",
   "symbolic execution of the real Python code with z3 (all values, enumerated widths/paths), counterexample replay", "DESIGN.md section 6 C18")

e3("C19", "Bounded symbolic execution of the real wildcard-bin code through the public covergroup API: for single bins the pattern value, "
          "the mask and the sample are all symbolic 16-bit values (1..3 patterns) and z3 shows hit <=> some pattern agrees on every "
          "non-wildcard bit; for array bins the masks/strings/bin counts are enumerated (every mask up to 8/10 bits for the expansion "
          "kernel) with symbolic pattern value and sample, and z3 shows the produced ranges are ascending, disjoint and cover exactly the "
          "matching values and that exactly the reference bin is incremented. str2bin is compared with an independent parse on all "
          "strings up to the stated length (enumeration).",
   "symbolic execution of the real Python code with z3 bit-vectors (all sample/pattern values), enumerated masks/strings", "DESIGN.md section 6 C19")

e1("C01", "Translation validation of the real lowering against an independent SystemVerilog-style reference: for each enumerated program "
          "and each concrete assignment of the non-random fields, z3 proves for ALL values of the random fields (widths up to 64) that the "
          "hard formula the library actually asserted implies every active constraint and the enum domains; the values finally returned are "
          "evaluated in the reference formula and range-checked. Bounded in the program dimension (families listed in the evidence).",
   "translation validation: z3 equivalence/implication between the mirrored Boolector formula and a reference lowering; replay via pinned inline constraints",
   "DESIGN.md section 6 C01")

e1("C02", "Translation validation used as a satisfiability oracle: for each enumerated program and each concrete assignment of the non-random "
          "fields z3 decides whether the reference constraints are satisfiable over ALL random-field values; the real call must raise "
          "SolveFailure iff they are not, must raise nothing else, and the hard formula it asserted must not exclude any reference "
          "solution (Q2). Includes conditions folded before solving (non-random if-conditions inside foreach) and just-satisfiable systems.",
   "translation validation: z3 satisfiability of the reference vs the real verdict/exception; Q2 (reference implies asserted formula); replay by pinning a legal solution",
   "DESIGN.md section 6 C02")

e3("C10", "Bounded symbolic execution of the real coverage code through the public API: for each enumerated bin specification (explicit "
          "bins, bin arrays with/without count, ignore/illegal cuts, auto-bins incl. 32/64-bit types, enum, iff) the sample values over the "
          "whole type range and the iff values are symbolic over 1..2 samples, and z3 shows on every path that each regular/ignore/illegal "
          "bin's hit count equals the number of gated samples in the reference value set (independent partition function). "
          "For a subset the samples arrive in an arbitrary valid earlier state (symbolic counts injected). RangelistModel.compact/intersect are additionally "
          "decided with symbolic endpoints.",
   "symbolic execution of the real Python code with z3 (all sample values), enumerated bin specifications, independent partition oracle", "DESIGN.md section 6 C10")

e3("C11", "Bounded symbolic execution of the real cross-coverage code through the public API: sample values of 2..3 coverpoints and the iff "
          "values of the cross and the coverpoints are symbolic over sample sequences (1 sample for every layout pair, 2..3-sample sequences on "
          "targeted layouts so that stale hit markers / iff caches are reachable); z3 shows each cross bin's count equals the number of samples "
          "whose gating conditions hold and whose value combination lies in that bin combination; bin count, order and names follow the "
          "coverpoints' bins. For a subset the samples arrive in an arbitrary valid earlier state (symbolic counts in every cross bin, e.g. all bins already "
          "covered). Bin layouts are enumerated.",
   "symbolic execution of the real Python code with z3 (all sample/iff values, sample sequences), enumerated bin layouts", "DESIGN.md section 6 C11")

e3("C12", "Bounded symbolic execution of the real registry/sampling/coverage code through the public API: sample values AND the choice of "
          "which of 1..3 instances samples are symbolic over 2..3-sample sequences; after each sample z3 shows instance hits = own samples only, "
          "type hits = bin-wise sum over the instances of the shape, a differently-shaped instance forms a separate untouched type, and on every "
          "path coverage equals the reference (bins with hits >= at_least, weight-averaged over coverpoints/crosses), stays in 0..100, never "
          "decreases, is 100 iff fully covered. Populations/options are enumerated.",
   "symbolic execution of the real Python code with z3 (sample values and sampling instance symbolic), enumerated populations/options", "DESIGN.md section 6 C12")
e3("C13", "Bounded symbolic execution of the real report path (CoverageSaveVisitor -> PyUCIS in-memory DB -> report builder) with the hit count of "
          "every regular/ignore/illegal/cross bin of the type and of each instance injected as a symbolic integer into a state satisfying the "
          "representation invariant: z3 shows every reported count is the in-memory count, names and structure agree, percentages agree with "
          "get_coverage()/get_inst_coverage() on every path and reporting leaves the state (counts and names) untouched, also for a second report after "
          "set_name(); user-given bin names and the injected counts are compared with the specification position by position. Text report and the UCIS XML "
          "write/read round trip: names/counts on concrete histories only (lxml/text formatting make counts concrete; supplementary, not decided).",
   "symbolic execution of the real Python code with z3 (all hit counts symbolic), enumerated populations; XML part not applicable", "DESIGN.md section 6 C13 / section 7")

e1("C03", "Translation validation over call histories: objects with fields that are random / non-random by declaration, by rand_mode toggles, "
          "by living in a non-random sub-object or by not being passed to a free-standing vsc.randomize(...); histories interleave assignments, "
          "rand_mode/constraint_mode toggles, rangelist and list edits with the four call kinds (including calls made unsatisfiable). For every "
          "call z3 proves, for all random-field values, that the asserted formula is EQUIVALENT to the reference instantiated with the values, "
          "rangelist/list contents and random partition current at that call, and the facade-visible values of everything not random in the call "
          "are compared before/after (also when the call fails). Histories are enumerated/seeded up to the stated length.",
   "translation validation per call of a history: z3 equivalence with the reference under the current non-random state; before/after observation of non-random fields",
   "DESIGN.md section 6 C03")

e1("C05", "Translation validation of soft-constraint handling: for each enumerated/seeded program mixing hard and soft constraints (pairwise and "
          "three-way conflicts, nesting under if/else-if/else/implies, hard-before/after-soft bodies, class and inline), z3 decides for all "
          "random-field values that (1) the hard formula is unaffected by softs and failure happens iff the hard constraints are unsatisfiable, "
          "(2) every soft node handed to the solver equals `guards => soft` of the reference, (3) no un-enforced soft is consistent with hard + "
          "enforced softs, (4) the enforced set gives the same solution space as the exact greedy-by-priority reference where the property fixes "
          "the order, and (5) on the returned values no violated soft could have been honoured.",
   "translation validation + solver-trace analysis: z3 equivalence of soft nodes and of the enforced set with a greedy-by-priority reference", "DESIGN.md section 6 C05")

e1("C06", "Translation validation over call sequences and instance populations: randomize / randomize_with with inline sets and dynamic-constraint "
          "references (alone, under & | ~, under if/implies, through list elements), with 1..3 live instances of the class created before/after the "
          "target whose field values falsify the dynamic blocks. For every call z3 proves, for all random-field values of the TARGET, equivalence of "
          "the asserted formula with class blocks AND this call's inline set AND the referenced dynamic blocks over the target's variables; the call "
          "after a randomize_with must be equivalent to the class blocks alone; failing inline calls leave no rewrite behind.",
   "translation validation per call: z3 equivalence with the reference over the target instance's variables", "DESIGN.md section 6 C06")
e1("C07", "Translation validation over toggle histories: class hierarchies with overridden block names (3 levels), constraint_mode toggles "
          "interleaved with calls, co-existing instances (top-level, nested rand_attr, list elements, created before and after toggles). For every "
          "call z3 proves equivalence of the asserted formula with exactly the most-derived-by-name blocks whose flag is on for that instance.",
   "translation validation per call of a toggle history: z3 equivalence with the reference block set", "DESIGN.md section 6 C07")
e1("C08", "Translation validation on object trees: depth 3, two sub-objects of one class, lists of objects, random and non-random sub-objects, "
          "cross-level constraints from the parent, from foreach over object lists, via list subscripts, unique/in over nested fields and inline; the "
          "reference names variables by attribute path and the mirror's variables are renamed through the model-field->path map, so aliasing between "
          "structurally identical sub-objects breaks the equivalence z3 decides; sub-object blocks are present iff the sub-object is random in the call.",
   "translation validation: z3 equivalence with path-named reference variables", "DESIGN.md section 6 C08")

e1("C14", "For every enumerated program and call, the value domain the call really handed to the swizzler (or drew an unconstrained field "
          "from) is read from the real run and z3 decides over ALL random-field values that no solution of the reference constraints has a field "
          "value outside that field's domain (Ref and x_f not in D_f is unsat), and that the asserted hard formula excludes no reference solution. "
          "Programs cover every relational operator against non-random fields/expressions that wrap, go negative or mix signedness, field-vs-field "
          "chains, overlapping/unordered in-ranges, statements after nested conditionals, disabled blocks, enums (also declared in non-ascending order), and "
          "previous values left in the random fields. In addition the real swizzle-constraint builders are decided with a symbolic target over single- and "
          "multi-range domains incl. single-value ranges (the drawn target is forced AND admitted; counterexamples replayed with the real Boolector), a dist under "
          "if/else/implies over a random condition steers its field only while the condition holds (real per-call pipeline on public-API objects, symbolic "
          "domain target), and RandState.randint is executed symbolically (one integer draw over exactly the requested range, returned unchanged).",
   "translation validation of the inferred bound map: z3 unsatisfiability of (reference AND value outside the inferred range)", "DESIGN.md section 6 C14")
e1("C16", "Fault enumeration: user exceptions at every statement position of a constraint body during construction (also nested, in a dynamic "
          "block, in __init__), at every position of a randomize_with body, in pre_/post_randomize (object and sub-object), a call aborted while its inline constraints are expanded, "
          "aborted covergroup constructors, and unsatisfiable calls, "
          "each followed by further use. After every operation the shared construction stacks and the object models are inspected (idle, no temporary "
          "rewrite, no solver node, no field left marked random) and every later call is decided by z3 for all random-field values against the "
          "reference (equivalent formula, failure iff unsatisfiable), i.e. it behaves as if the fault never happened.",
   "enumerated fault points; state inspection after each; every later call decided by z3 equivalence with the reference", "DESIGN.md section 6 C16", cat="fault_enumeration")
e1("C17", "Object trees whose classes define pre_/post_randomize are randomized through all call kinds; the callbacks log object, phase, visible "
          "values and the number of solver-trace events so far. Exactly-once per phase iff the object and all its ancestors are random in the call, "
          "pre before any solver activity, post after the last solver event with final values - observed on the real run; and z3 proves for all "
          "random-field values that the solver saw the values pre_randomize assigned (equivalence with the reference built from them).",
   "event log vs solver-trace positions (observation) + z3 equivalence with the reference using pre_randomize's assignments", "DESIGN.md section 6 C17")

e1("C04", "Translation validation for list constraints (scalar/enum/object lists, fixed and random size; foreach with element/index/index arithmetic/"
          "nesting, sum, product, unique, unique_vec, size, membership; append/clear/assign histories). For random-size lists the reference guards "
          "each element-wise meaning by index < size over element variables up to the stated bound, so z3 decides for ALL admitted sizes and element "
          "values that the asserted formula implies the constraints on the visible elements, and - with the invisible pre-allocated elements "
          "existentially quantified - that no visible solution is excluded. len()/size/indexing/iteration are compared on the real object after each "
          "call and list operation. Known findings (stale-size sum/product, membership in random-size lists, size-guarded neighbour access, "
          "constraints on invisible elements) are listed in known_findings.json.",
   "translation validation with size-guarded reference; quantified (exists invisible elements) over-constraint query; facade observation", "DESIGN.md section 6 C04")

e1("C20", "Decided parts of solve_order: (i) z3 equivalence of the asserted formula with the reference for programs with ordering directives "
          "(all constraints hold, satisfiability unchanged); (ii) every feasible value of each field lies in the domain its target is drawn from; "
          "(iii) for every target t of a domain the constraints built by the real create_rand_domain_constraint/_build_swizzle_constraints force the "
          "field to t inside the domain (t symbolic, widths 1..64); (iv) solver trace: ordered groups are tried in directive order in one solver context, "
          "the groups place every 'before' field of a solve_order statement (read from the program text, not from the library's dependency map) before its "
          "'after' fields, every multi-valued solver variable of an ordered rand set belongs to a randomised group, a randomising constraint is asserted "
          "only after a SAT check containing it, the final check is SAT. (iii) includes multi-range domains with every range picked; kernel counterexamples "
          "are replayed with the real Boolector. The frequency statement itself is not claimed.",
   "translation validation + bound-map query + symbolic-target kernel (z3) + solver-trace ordering; frequencies not applicable", "DESIGN.md section 6 C20 / section 7")
CHECKS["C15"] = dict(level=("other", "Decided parts of dist / weighted selection: (a) translation validation (E1): z3 equivalence of the asserted formula with "
          "'field in the non-zero-weight entries, not in any zero-weight entry, and the other constraints' for all random-field values, and the (weight, index) "
          "selection list the real DistConstraintBuilder installs in each call equals the non-zero weights evaluated on the current non-random values; (b) bounded symbolic "
          "execution (E3) of the real distselect / randselect / next_target_range with symbolic weights (<= 2^40) and symbolic RNG draws: never a zero "
          "weight, and two draws selecting the same entry are < w_i apart, so entry i owns exactly w_i of the `total` equally likely draws; (c) the dist "
          "target constraint is f == val for symbolic val. Measured frequencies are not claimed.", "DESIGN.md section 6 C15 / section 7"),
          note=E1_NOTE + " " + E3_NOTE, technique="translation validation (support) + symbolic execution of the selection kernels with z3; frequencies not applicable",
          engine="E1 btor-mirror + E3 symex-lite")
