#!/bin/bash
# usage: tools/regress_seeds.sh [nworkers]   -- applies every kept seeded change (seeded/<ID>/<name>/patch.diff) to a scratch worktree of
# /repo HEAD, runs the property's quick check against that worktree (VERIF_REPO) and records whether it is caught; evidence and replays of
# these runs go to a scratch directory.  Result: seeded/REGRESSION.txt.  /repo itself is not touched.
N=${1:-4}
cd /verif
HEAD=$(git -C /repo rev-parse --short HEAD)
ls -d seeded/C*/*/ | sed 's:/$::' > /tmp/regress_list.$$
rm -rf /tmp/regress_out.$$; mkdir -p /tmp/regress_out.$$
worker() {
  W=$1
  WT=/tmp/wt/regress_${$}_$W
  git -C /repo worktree add -q --detach $WT HEAD || exit 1
  i=0
  while read D; do
    i=$((i+1)); [ $((i % N)) -eq $W ] || continue
    ID=$(python3 -c "import json,sys; print(json.load(open(sys.argv[1]+'/meta.json'))['detection']['check'].split()[0])" $D 2>/dev/null || echo $D | cut -d/ -f2)
    git -C $WT checkout -q -- . ; git -C $WT clean -fdq
    if git -C $WT apply /verif/$D/patch.diff 2>/dev/null; then
      PYTHONPATH=$WT/src /venv/bin/python /verif/$D/demo.py >/dev/null 2>&1; DRC=$?
      OUT=$(VERIF_REPO=$WT VERIF_OUT=/tmp/regress_out.$$/w$W ./run_check.sh $ID quick 2>/dev/null); RC=$?
      V=$(echo "$OUT" | grep -c "^VIOLATION")
      echo "$D head=$HEAD demo_rc=$DRC check_exit=$RC violations=$V $([ $RC -eq 1 ] && [ $V -gt 0 ] && echo CAUGHT || echo MISSED)"
    else
      echo "$D head=$HEAD PATCH-DOES-NOT-APPLY"
    fi
  done < /tmp/regress_list.$$ > /tmp/regress_out.$$/res_$W.txt
  git -C /repo worktree remove --force $WT
}
for W in $(seq 0 $((N-1))); do worker $W & done
wait
cat /tmp/regress_out.$$/res_*.txt | sort > seeded/REGRESSION.txt
rm -rf /tmp/regress_out.$$ /tmp/regress_list.$$
grep -c CAUGHT seeded/REGRESSION.txt; grep -v CAUGHT seeded/REGRESSION.txt
